#!/usr/bin/env python3
"""translate_identify.py -- FAIL-CLOSED translator of cai_causal_graph/identify_utils.py to Gallina.

usage:  translate_identify.py <repo_root> [<output_dir>=/verif/coq/theories]

Reads (with `ast` only -- repository code is never imported or executed)

    <repo_root>/cai_causal_graph/identify_utils.py

and writes THREE files into <output_dir>, one per property, so that a change in one Python function cannot disturb
the proof obligations of an unrelated property:

    IdentifyGenConf.v  gen__verify_identify_inputs, the helper nested in identify_confounders,
                       gen_identify_confounders                                                  (property C18)
    IdentifyGenIM.v    gen_identify_instruments, gen_identify_mediators; imports IdentifyGenConf (property C19)
    IdentifyGenMB.v    gen_identify_markov_boundary, gen_identify_colliders; imports
                       IdentifyGenConf only because identify_markov_boundary calls _verify_..    (property C20)

Each file contains one Gallina function `gen_<name>` per Python function of its part of FILES (and per function nested
in one of them), following the Python text statement by statement.  Everything the generated code calls is defined in
coq/theories/PyRt.v; the table at the top of that file says which Python construct is mapped to which Coq term and is
the trusted part of this tool.  The equivalence of the generated functions with the hand-written models
(coq/theories/Identify.v, Markov.v) is PROVED in coq/theories/IdentifyGen{Conf,IM,MB}Proofs.v, so a change of the
Python source changes the generated definitions and the proof of THAT property either still goes through or breaks.

FAIL CLOSED, PER FILE: the tool handles exactly the Python subset that the target functions use.
  * A module-level construct it cannot classify (unexpected import, global statement, a decorated / duplicated
    function, a syntax error, ...) fails everything: no file is written.
  * Otherwise every target function is translated on its own.  If a function uses an unsupported construct, the
    file F it belongs to is not written, and neither is any file that imports F (a function that calls an
    untranslatable function is itself untranslatable); the files that do not depend on the offending function are
    still written.
  * A file that is not written is also REMOVED if an earlier run left it there, so that a stale translation cannot be
    compiled by mistake.  For every file not written a line `translate_identify: FAIL: <file>:<line>: <reason>
    [<F>.v is not written]` goes to stderr, and the exit status is 2 (0 only when all three files are written).

The translation scheme
  * Statements are translated in continuation-passing style: the translation of `s; rest` contains the translation
    of `rest` (for an `if`, once per branch that can fall through).  `return e` -> `inj (Ret e)`, `raise E(..)` ->
    `inj (Exc PyE)`, where `inj` is `py_top` in a function body and `py_in` in a loop body.
  * `for t in it: body` -> `py_for inj it state (fun t state => body) (fun state => rest)`, where `state` is the tuple
    of the variables that the body assigns or mutates and that exist before the loop; `break` -> `Brk state`, falling
    off the body or `continue` -> `Cont state`.  The iterable is evaluated once, before the loop.  Variables first
    assigned inside a loop body are local to one iteration: using them after the loop is refused.
  * In-place mutation `x.m(args)` (m one of add / remove / append / remove_edge / add_edge) rebinds `x`.  This is only
    sound when no other live name denotes the same object, which is enforced syntactically:
      - the receiver must be a local that OWNS a fresh object (constructor, copy, result of a call), or a parameter;
      - a parameter that is mutated is returned by the generated function together with the result
        (`Ret (param, result)`), and the call site rebinds the variable it passed (which must be a plain name that
        occurs nowhere else in the calling statement);
      - `a = b` between names of mutable kind is an ALIAS: both names are translated to the same Coq variable (only
        accepted as a top-level statement of a function body, and `b` must own its object or be a parameter);
      - loop targets, tuple components and comprehension variables never own their object (mutating them is refused);
      - storing a NAME of mutable kind into a container (`l.append(x)`, `s.add(x)`) is refused; returning a parameter
        is refused; iterating directly over a name that the loop body mutates is refused; iterating over a live
        networkx view (`G.successors(n)`, `G.predecessors(n)`) without `list(...)` is refused when the body mutates
        anything.
  * Iteration order.  Wherever Python observes the order of a set (`for x in s`, `list(s)`, a comprehension over a
    set, `enumerate(s)`, `combinations(s, 2)`) the set is wrapped in `py_iter_set py_order k`, and the library calls
    whose result order is unspecified (get_children, get_parents, get_neighbors, successors, predecessors,
    get_all_causal_paths) take `py_order k` as well; `py_order : pyorder` is a parameter of every generated function
    (an arbitrary function from lists to lists) and k numbers the observation sites of each function.  The proofs hold
    for every `py_order` that returns a permutation of its argument.
  * Calls of translated functions, `set.intersection(*..)`, `s.remove(x)`, `remove_edge` and `get_all_causal_paths`
    can fail (exception / fuel): they are hoisted, in evaluation order, into `py_bind inj <call> (fun result => ...)`
    in front of the statement.  They are refused in positions that Python evaluates conditionally or repeatedly
    (right operands of and/or, branches of a conditional expression, comprehension bodies).
  * Every generated function takes the same leading parameters `{A} eqb py_None py_empty_str py_order` (whether its
    body mentions them or not), so the way a function is called -- also from another file and from the proofs --
    does not depend on what its body happens to use.
  * A function that calls itself becomes a `Fixpoint` on an extra argument `fuel` (after the leading parameters;
    `match fuel with O => Fuel | S fuel' => body end`, recursive calls use fuel'); every function that calls a
    function with fuel takes `fuel` as well and passes it on.
  * `x = A and B` / `x = A or B` where B contains such a call (e.g. `graph.edge_exists(a, b) and graph.get_edge(a, b)...`)
    is first rewritten to `if A: x = B else: x = False` / `if A: x = True else: x = B` (A and B booleans), which is
    how Python evaluates it.
  * Comprehensions: `[e for x in xs]` -> `map`, any other list / set comprehension (several `for`, `if` clauses) ->
    nested `flat_map` (+ `py_set_of` for a set); only the first iterable may contain a call that can raise.
  * Logging.  At module level `import logging` and `<name> = logging.getLogger(__name__ | <constant>)` are accepted;
    a statement `<name>.debug/info/warning/error/critical(...)` is translated to NOTHING (a comment), provided every
    argument is obviously free of effects and cannot raise: defined names, constants, known attribute reads,
    `len(<list/set name>)`, tuples and f-strings of such, and `'<constant>' % (...)` with a matching number of
    %s / %r conversions (%d / %i only for len(..), integer constants, integer / boolean names).  Any other use of a
    logger (other methods, other arguments, rebinding it, passing it on) is refused.
  * Set operators `a | b`, `a & b`, `a - b` are translated to the SAME terms as `a.union(b)`, `a.intersection(b)`,
    `a.difference(b)` (py_union / py_inter / py_diff); both operands must be sets of identifiers (one of them may be
    of a kind that is only known to Coq).  Annotated assignments `x: T = e` are ordinary assignments (T is ignored,
    also inside nested functions).
  * Graph kinds.  The functions that call `_verify_identify_inputs` only work on DAGs: their CausalGraph is a
    `digraph A`.  The functions of MIXED_GRAPH_FUNCTIONS (identify_colliders) accept arbitrary edge types: their
    CausalGraph is an `mgraph A` (nodes + typed edges) and only the mixed-graph rows of the PyRt table apply.
  * Parameter annotations are read only to select the KIND of a parameter (CausalGraph / networkx.DiGraph /
    identifier / int), which selects the receiver of `copy` / `remove_edge`; both graph kinds are `digraph A` in
    Coq and every generated term is type-checked by Coq.  Return annotations are only used for the type of the
    generated Fixpoint.  Docstrings are skipped.  The text of exception messages is dropped (f-strings in `raise`
    may only mention names).
"""
import ast
import os
import sys

TARGETS = ['_verify_identify_inputs', 'identify_confounders', 'identify_instruments', 'identify_mediators',
           'identify_markov_boundary', 'identify_colliders']
# The functions above call `_verify_identify_inputs`, which refuses everything but a DAG: their CausalGraph is translated
# to `digraph A`.  The functions listed here accept ARBITRARY (mixed) causal graphs: their CausalGraph parameter is
# translated to `mgraph A` (nodes + typed edges) and only the mixed-graph rows of the PyRt table apply to it.
MIXED_GRAPH_FUNCTIONS = ['identify_colliders']
EDGE_TYPES = {
    'DIRECTED_EDGE': 'Dir', 'UNDIRECTED_EDGE': 'Und', 'BIDIRECTED_EDGE': 'Bi', 'UNKNOWN_EDGE': 'Unk',
    'UNKNOWN_DIRECTED_EDGE': 'UnkDir', 'UNKNOWN_UNDIRECTED_EDGE': 'UnkUnd',
}
SOURCE = os.path.join('cai_causal_graph', 'identify_utils.py')

# The generated files, in dependency order: (file name, the target functions it contains, property).  A function nested
# in a target goes to the file of that target.  A file imports the earlier files whose functions it calls.
FILES = [
    ('IdentifyGenConf', ['_verify_identify_inputs', 'identify_confounders'], 'C18'),
    ('IdentifyGenIM', ['identify_instruments', 'identify_mediators'], 'C19'),
    ('IdentifyGenMB', ['identify_markov_boundary', 'identify_colliders'], 'C20'),
]
DEFAULT_OUTPUT_DIR = '/verif/coq/theories'
# Every generated function takes the same leading parameters (whether it uses them or not), so that the way a function
# is called never depends on what its body happens to mention.
GEN_PARAMS = '{A : Type} (eqb : A -> A -> bool) (py_None py_empty_str : A) (py_order : pyorder)'
GEN_ARGS = 'eqb py_None py_empty_str py_order'

# expected imports (anything else at module level is refused)
LOG_METHODS = {'debug', 'info', 'warning', 'error', 'critical'}

ALLOWED_IMPORTS = {
    ('import', 'networkx'), ('import', 'logging'),
    ('from', 'itertools'), ('from', 'typing'), ('from', 'cai_causal_graph'), ('from', 'cai_causal_graph.exceptions'),
    ('from', 'cai_causal_graph.graph_components'), ('from', 'cai_causal_graph.type_definitions'),
}

EXCEPTIONS = {
    'TypeError': 'PyTypeError', 'ValueError': 'PyValueError', 'KeyError': 'PyKeyError',
    'NodeDoesNotExistError': 'PyNodeDoesNotExistError', 'EdgeDoesNotExistError': 'PyEdgeDoesNotExistError',
}

MAX_OUTPUT_CHARS = 200000   # guard against blow-up by continuation duplication


class Unsupported(Exception):
    def __init__(self, node, msg):
        line = getattr(node, 'lineno', '?')
        super().__init__(f'{line}: {msg}')


# ---------------------------------------------------------------------------------------------------------------
# kinds
NODE, INT, BOOL, CG, NX, UNKNOWN = ('node',), ('int',), ('bool',), ('cg',), ('nx',), ('unknown',)
MCG, EDGE, ETYPE = ('mcg',), ('edge',), ('etype',)


def SET(e): return ('set', e)
def LIST(e): return ('list', e)
def VIEW(e): return ('view', e)
def TUPLE(*es): return ('tuple', tuple(es))


def is_mutable(k):
    return k[0] in ('cg', 'nx', 'mcg', 'set', 'list', 'view', 'unknown')


def is_immutable(k):
    if k[0] in ('node', 'int', 'bool', 'edge', 'etype'):
        return True
    if k[0] == 'tuple':
        return all(is_immutable(e) for e in k[1])
    return False


def elem_of(k):
    if k[0] in ('set', 'list', 'view'):
        return k[1]
    return UNKNOWN


def coq_type(k):
    t = k[0]
    if t == 'node':
        return 'A'
    if t == 'int':
        return 'nat'
    if t == 'bool':
        return 'bool'
    if t in ('cg', 'nx'):
        return 'digraph A'
    if t == 'mcg':
        return 'mgraph A'
    if t == 'edge':
        return 'medge A'
    if t == 'etype':
        return 'etype'
    if t in ('set', 'list', 'view'):
        return f'list ({coq_type(k[1])})' if k[1][0] not in ('node', 'int', 'bool', 'unknown') else f'list {coq_type(k[1])}'
    if t == 'tuple':
        return '(' + ' * '.join(coq_type(e) for e in k[1]) + ')'
    return '_'


def merge_kind(a, b):
    """Least informative common refinement used when a container's element kind becomes known."""
    if a == UNKNOWN:
        return b
    if b == UNKNOWN:
        return a
    if a[0] == b[0] and a[0] in ('set', 'list', 'view'):
        return (a[0], merge_kind(a[1], b[1]))
    if a[0] == b[0] == 'tuple' and len(a[1]) == len(b[1]):
        return ('tuple', tuple(merge_kind(x, y) for x, y in zip(a[1], b[1])))
    return a


def kind_of_annotation(ann):
    """Kind of a parameter / return annotation (None when there is no annotation)."""
    if ann is None:
        return None
    s = ast.unparse(ann).replace(' ', '')
    table = {
        'CausalGraph': CG, 'Union[CausalGraph,Skeleton]': CG, 'networkx.DiGraph': NX,
        'NodeLike': NODE, 'Optional[NodeLike]': NODE, 'str': NODE, 'int': INT, 'bool': BOOL,
        'List[str]': LIST(NODE), 'Set[str]': SET(NODE), 'Tuple[str,str]': TUPLE(NODE, NODE),
    }
    if s not in table:
        raise Unsupported(ann, f'annotation not understood: {s}')
    return table[s]


# ---------------------------------------------------------------------------------------------------------------
class Var:
    """A Python local: the Coq variable that holds it, its kind, and whether the name owns a fresh object."""
    def __init__(self, coq, kind, owned, param=False):
        self.coq, self.kind, self.owned, self.param = coq, kind, owned, param


class FuncInfo:
    def __init__(self, node, nested_in=None):
        self.node = node
        self.name = node.name
        self.nested_in = nested_in
        self.params = []          # [(python name, kind, default ast or None)]
        self.mutated = []         # python names of the parameters mutated in place (in parameter order)
        self.recursive = False
        self.needs_fuel = False
        self.ret_kind = None      # kind of the returned value (without the mutated parameters)
        self.calls = set()


MUTATORS = {'add', 'remove', 'append', 'remove_edge', 'add_edge'}


class Translator:
    def __init__(self, tree, src):
        self.tree = tree
        self.src = src
        self.funcs = {}           # name -> FuncInfo, in emission order
        self.order = []
        self.tmp = 0
        self.failures = {}        # target / nested function -> reason (the first one)
        self.loggers = set()      # module-level names bound to logging.getLogger(...)

    # ------------------------------------------------------------------------------------------------ module level
    def scan_module(self):
        seen = set()
        body = list(self.tree.body)
        if body and isinstance(body[0], ast.Expr) and isinstance(body[0].value, ast.Constant) \
                and isinstance(body[0].value.value, str):
            body = body[1:]
        for st in body:
            if isinstance(st, ast.Import):
                for a in st.names:
                    if ('import', a.name) not in ALLOWED_IMPORTS or a.asname is not None:
                        raise Unsupported(st, f'unexpected import {a.name}')
            elif isinstance(st, ast.ImportFrom):
                if ('from', st.module) not in ALLOWED_IMPORTS or st.level != 0:
                    raise Unsupported(st, f'unexpected import from {st.module}')
                for a in st.names:
                    if a.asname is not None:
                        raise Unsupported(st, 'import ... as ... is not supported')
            elif isinstance(st, ast.FunctionDef):
                if st.name in seen:
                    raise Unsupported(st, f'function {st.name} defined twice')
                seen.add(st.name)
            elif self.is_logger_binding(st):
                self.loggers.add(st.targets[0].id)
            else:
                raise Unsupported(st, f'unsupported module-level statement {type(st).__name__}')
        defs = {st.name: st for st in body if isinstance(st, ast.FunctionDef)}
        for name in self.loggers:
            if name in defs:
                raise Unsupported(self.tree, f'{name} is both a logger and a function')
        # a logger must not be rebound or passed around inside a function: it may only receive logging calls
        for fn in defs.values():
            for n in ast.walk(fn):
                if isinstance(n, ast.arg) and n.arg in self.loggers:
                    raise Unsupported(n, f'parameter {n.arg} shadows a logger')
                if isinstance(n, ast.Name) and n.id in self.loggers and not isinstance(n.ctx, ast.Load):
                    raise Unsupported(n, f'the logger {n.id} is rebound')
        return defs

    @staticmethod
    def is_logger_binding(st):
        """`<name> = logging.getLogger(<constant or __name__>)` at module level"""
        if not (isinstance(st, ast.Assign) and len(st.targets) == 1 and isinstance(st.targets[0], ast.Name)):
            return False
        v = st.value
        if not (isinstance(v, ast.Call) and isinstance(v.func, ast.Attribute) and v.func.attr == 'getLogger'
                and isinstance(v.func.value, ast.Name) and v.func.value.id == 'logging' and not v.keywords):
            return False
        return all(isinstance(a, ast.Constant) or (isinstance(a, ast.Name) and a.id == '__name__') for a in v.args) \
            and len(v.args) <= 1

    def drop(self, name, why):
        """Record the failure of a function and forget it (with the functions nested in it, and the function it is
        nested in): every later call of it is then a call of an unknown function, which fails the caller."""
        if name not in self.failures:
            self.failures[name] = why
        info = self.funcs.pop(name, None)
        if name in self.order:
            self.order.remove(name)
        if info is not None and info.nested_in is not None and info.nested_in.name in self.funcs:
            self.drop(info.nested_in.name, f'its nested function {name} could not be translated')
        for other in [f for f in self.funcs.values() if f.nested_in is not None and f.nested_in.name == name]:
            self.funcs.pop(other.name, None)
            if other.name in self.order:
                self.order.remove(other.name)

    def register_targets(self, defs):
        for name in TARGETS:
            if name not in defs:
                self.failures[name] = '?: target function not found'
                continue
            before = list(self.order)
            try:
                self.register(defs[name], None)
            except Unsupported as ex:
                for n in [n for n in self.order if n not in before]:
                    self.funcs.pop(n, None)
                self.order = before
                self.failures[name] = str(ex)

    def register(self, node, nested_in):
        if node.decorator_list:
            raise Unsupported(node, 'decorators are not supported')
        if node.name in self.funcs:
            raise Unsupported(node, f'function name {node.name} is not unique')
        a = node.args
        if a.vararg or a.kwarg or a.kwonlyargs or a.posonlyargs or a.kw_defaults:
            raise Unsupported(node, 'only plain positional parameters are supported')
        info = FuncInfo(node, nested_in)
        defaults = [None] * (len(a.args) - len(a.defaults)) + list(a.defaults)
        for arg, dflt in zip(a.args, defaults):
            if dflt is not None and not isinstance(dflt, ast.Constant):
                raise Unsupported(dflt, 'only constant default values are supported')
            kind = kind_of_annotation(arg.annotation)
            if kind == CG and node.name in MIXED_GRAPH_FUNCTIONS:
                kind = MCG
            if kind is None:
                raise Unsupported(arg, f'parameter {arg.arg} has no annotation (needed to choose its kind)')
            info.params.append((arg.arg, kind, dflt))
        info.ret_kind = kind_of_annotation(node.returns)
        # nested functions first (they are emitted before the enclosing function)
        stmts = self.strip_doc(node.body)
        for st in stmts:
            if isinstance(st, ast.FunctionDef):
                self.register(st, info)
        for st in ast.walk(node):
            if isinstance(st, (ast.Lambda, ast.AsyncFunctionDef, ast.ClassDef, ast.Global, ast.Nonlocal,
                               ast.Yield, ast.YieldFrom, ast.Await, ast.Try, ast.With, ast.While, ast.Delete,
                               ast.NamedExpr, ast.Assert, ast.Import, ast.ImportFrom)):
                raise Unsupported(st, f'unsupported construct {type(st).__name__}')
        self.funcs[node.name] = info
        self.order.append(node.name)

    @staticmethod
    def strip_doc(stmts):
        if stmts and isinstance(stmts[0], ast.Expr) and isinstance(stmts[0].value, ast.Constant) \
                and isinstance(stmts[0].value.value, str):
            return stmts[1:]
        return stmts

    def own_nodes(self, info):
        """AST nodes of a function, without the bodies of the functions nested in it."""
        out = []
        stack = list(self.strip_doc(info.node.body))
        while stack:
            n = stack.pop()
            if isinstance(n, ast.FunctionDef):
                continue
            out.append(n)
            stack.extend(ast.iter_child_nodes(n))
        return out

    def call_graph(self):
        for info in self.funcs.values():
            info.calls = set()
            for n in self.own_nodes(info):
                if isinstance(n, ast.Call) and isinstance(n.func, ast.Name) and n.func.id in self.funcs:
                    info.calls.add(n.func.id)
            info.recursive = info.name in info.calls

    def analyse(self):
        # call graph, recursion, fuel
        self.call_graph()
        # no mutual recursion: every callee other than the function itself must be emitted earlier
        bad = {}
        for i, name in enumerate(self.order):
            info = self.funcs[name]
            for c in info.calls:
                if c != name and self.order.index(c) > i:
                    bad[name] = str(Unsupported(info.node, f'{name} calls {c}, which is defined later '
                                                '(mutual / forward recursion is not supported)'))
                if c != name and self.funcs[c].nested_in is not None and self.funcs[c].nested_in.name != name:
                    bad[name] = str(Unsupported(info.node, f'{name} calls {c}, which is local to another function'))
            if info.recursive and info.ret_kind is None:
                bad[name] = str(Unsupported(info.node, 'a recursive function needs a return annotation'))
        for name, why in bad.items():
            self.drop(name, why)
        self.call_graph()
        for name in self.order:
            info = self.funcs[name]
            info.needs_fuel = info.recursive or any(self.funcs[c].needs_fuel for c in info.calls if c != name)
        # mutated parameters (fixpoint because a parameter may be mutated through a call)
        changed = True
        while changed:
            changed = False
            for info in self.funcs.values():
                m = self.mutated_params(info)
                if m != info.mutated:
                    info.mutated = m
                    changed = True

    def mutated_params(self, info):
        params = [p for p, _, _ in info.params]
        alias = {p: p for p in params}
        for st in self.strip_doc(info.node.body):
            if isinstance(st, (ast.Assign, ast.AnnAssign)):
                tgt = st.targets[0] if isinstance(st, ast.Assign) and len(st.targets) == 1 else \
                    (st.target if isinstance(st, ast.AnnAssign) else None)
                if isinstance(tgt, ast.Name) and isinstance(st.value, ast.Name) and st.value.id in alias:
                    alias[tgt.id] = alias[st.value.id]
        hit = set()
        for n in self.own_nodes(info):
            if isinstance(n, ast.Call):
                f = n.func
                if isinstance(f, ast.Attribute) and f.attr in MUTATORS and isinstance(f.value, ast.Name) \
                        and f.value.id in alias:
                    hit.add(alias[f.value.id])
                if isinstance(f, ast.Name) and f.id in self.funcs:
                    callee = self.funcs[f.id]
                    cparams = [p for p, _, _ in callee.params]
                    for i, a in enumerate(n.args):
                        if i < len(cparams) and cparams[i] in callee.mutated and isinstance(a, ast.Name) \
                                and a.id in alias:
                            hit.add(alias[a.id])
                    for kw in n.keywords:
                        if kw.arg in callee.mutated and isinstance(kw.value, ast.Name) and kw.value.id in alias:
                            hit.add(alias[kw.value.id])
        return [p for p in params if p in hit]

    # ------------------------------------------------------------------------------------------------ helpers
    def site(self):
        """Number of the next point of the current function at which an unspecified order is observed."""
        self.sites += 1
        return str(self.sites)

    def iter_set(self, text, kind):
        """Iterating over a set object: the order is given by the oracle."""
        if kind[0] == 'set':
            return f'py_iter_set py_order {self.site()} {self.atom(text)}', LIST(elem_of(kind))
        return text, kind

    def fresh(self, base='tmp'):
        self.tmp += 1
        return f'{base}_{self.tmp}'

    @staticmethod
    def vname(pyname):
        return 'v_' + pyname

    def line_comment(self, node):
        if getattr(node, 'py_desugared', None):
            return f'(* L{node.lineno}: [desugared] {node.py_desugared} *)'
        try:
            seg = ast.get_source_segment(self.src, node) or ''
        except Exception:
            seg = ''
        first = seg.split('\n')[0].strip()
        first = first.replace('(*', '( *').replace('*)', '* )').replace('"', "'")
        return f'(* L{node.lineno}: {first} *)'

    @staticmethod
    def tuple_pat(names):
        if len(names) == 0:
            return '(_ : unit)'
        if len(names) == 1:
            return names[0]
        return "'(" + ', '.join(names) + ')'

    @staticmethod
    def tuple_val(names):
        if len(names) == 0:
            return 'tt'
        if len(names) == 1:
            return names[0]
        return '(' + ', '.join(names) + ')'

    # ------------------------------------------------------------------------------------------------ analysis
    def assigned_names(self, stmts, env):
        """Python names assigned or mutated (directly or through a call) by a statement list."""
        out = []

        def add(n):
            if n not in out:
                out.append(n)

        def targets(t):
            if isinstance(t, ast.Name):
                add(t.id)
            elif isinstance(t, ast.Tuple):
                for e in t.elts:
                    targets(e)
            else:
                raise Unsupported(t, 'unsupported assignment target')

        for st in stmts:
            for n in ast.walk(st):
                if isinstance(n, ast.Assign):
                    for t in n.targets:
                        targets(t)
                elif isinstance(n, (ast.AnnAssign, ast.AugAssign)):
                    targets(n.target)
                elif isinstance(n, ast.For):
                    targets(n.target)
                elif isinstance(n, ast.Call):
                    f = n.func
                    if isinstance(f, ast.Attribute) and f.attr in MUTATORS and isinstance(f.value, ast.Name):
                        add(f.value.id)
                    if isinstance(f, ast.Name) and f.id in self.funcs:
                        callee = self.funcs[f.id]
                        cparams = [p for p, _, _ in callee.params]
                        for i, a in enumerate(n.args):
                            if i < len(cparams) and cparams[i] in callee.mutated and isinstance(a, ast.Name):
                                add(a.id)
                        for kw in n.keywords:
                            if kw.arg in callee.mutated and isinstance(kw.value, ast.Name):
                                add(kw.value.id)
        return out

    def mutates_anything(self, stmts):
        for st in stmts:
            for n in ast.walk(st):
                if isinstance(n, ast.Call):
                    f = n.func
                    if isinstance(f, ast.Attribute) and f.attr in MUTATORS:
                        return True
                    if isinstance(f, ast.Name) and f.id in self.funcs and self.funcs[f.id].mutated:
                        return True
        return False

    # ------------------------------------------------------------------------------------------------ expressions
    class Fx:
        """Collector of the hoisted computations of one statement: [(pattern, computation text)]."""
        def __init__(self):
            self.binds = []
            self.rebound = []     # (python name, call node) for parameters rebound by a call

    def expr(self, e, env, fx, hint=None):
        """Translate an expression.  Returns (coq text, kind, fresh) where fresh says whether the value is a new
        object that nothing else refers to.  fx is None where effects are not allowed."""
        if isinstance(e, ast.Name):
            if not isinstance(e.ctx, ast.Load):
                raise Unsupported(e, 'unexpected store context')
            if e.id not in env:
                raise Unsupported(e, f'name {e.id} is not (definitely) defined here')
            v = env[e.id]
            return v.coq, v.kind, False
        if isinstance(e, ast.Constant):
            if e.value is None:
                return 'py_None', NODE, False
            if e.value is True:
                return 'true', BOOL, False
            if e.value is False:
                return 'false', BOOL, False
            if isinstance(e.value, int):
                if e.value < 0:
                    raise Unsupported(e, 'negative integer literal')
                return str(e.value), INT, False
            if e.value == '':
                return 'py_empty_str', NODE, False
            raise Unsupported(e, f'unsupported constant {e.value!r}')
        if isinstance(e, ast.Tuple):
            parts = [self.expr(x, env, fx) for x in e.elts]
            for (_, k, _), x in zip(parts, e.elts):
                if not is_immutable(k):
                    raise Unsupported(x, 'only tuples of identifiers / integers are supported')
            return '(' + ', '.join(p[0] for p in parts) + ')', TUPLE(*[p[1] for p in parts]), True
        if isinstance(e, ast.Set):
            parts = [self.expr(x, env, fx) for x in e.elts]
            for (_, k, _), x in zip(parts, e.elts):
                if k != NODE:
                    raise Unsupported(x, 'only sets of identifiers are supported')
            return 'py_set_of eqb [' + '; '.join(p[0] for p in parts) + ']', SET(NODE), True
        if isinstance(e, ast.List):
            if not e.elts:
                return 'py_list_empty', LIST(UNKNOWN), True
            parts = [self.expr(x, env, fx) for x in e.elts]
            k = UNKNOWN
            for (_, kk, _), x in zip(parts, e.elts):
                if not is_immutable(kk):
                    raise Unsupported(x, 'only list displays of identifiers / integers are supported')
                k = merge_kind(k, kk)
            return '[' + '; '.join(p[0] for p in parts) + ']', LIST(k), True
        if isinstance(e, ast.UnaryOp) and isinstance(e.op, ast.Not):
            t, k, _ = self.expr(e.operand, env, fx)
            self.want(e.operand, k, BOOL)
            return f'negb ({t})', BOOL, True
        if isinstance(e, ast.BoolOp):
            op = '&&' if isinstance(e.op, ast.And) else '||'
            texts = []
            for i, x in enumerate(e.values):
                t, k, _ = self.expr(x, env, fx if i == 0 else None)
                self.want(x, k, BOOL)
                texts.append(f'({t})')
            return f' {op} '.join(texts), BOOL, True
        if isinstance(e, ast.IfExp):
            c, kc, _ = self.expr(e.test, env, fx)
            self.want(e.test, kc, BOOL)
            a, ka, _ = self.expr(e.body, env, None)
            b, kb, _ = self.expr(e.orelse, env, None)
            if not (is_immutable(ka) and is_immutable(kb)):
                raise Unsupported(e, 'conditional expressions are only supported on identifiers / integers')
            return f'(if {c} then {a} else {b})', merge_kind(ka, kb), True
        if isinstance(e, ast.Compare):
            return self.compare(e, env, fx)
        if isinstance(e, (ast.ListComp, ast.SetComp)):
            return self.comprehension(e, env, fx)
        if isinstance(e, ast.BinOp) and isinstance(e.op, (ast.BitOr, ast.BitAnd, ast.Sub)):
            # the set operators are translated to the SAME terms as .union / .intersection / .difference
            a, ka, _ = self.expr(e.left, env, fx)
            b, kb, _ = self.expr(e.right, env, fx)
            sym, fn = {ast.BitOr: ('|', 'py_union'), ast.BitAnd: ('&', 'py_inter'), ast.Sub: ('-', 'py_diff')}[type(e.op)]
            # one operand may be of unknown kind (an element of a list whose element kind was only learnt inside a
            # loop); the generated term is type-checked by Coq, where both operands must be lists of identifiers
            if ka[0] not in ('set', 'unknown') or kb[0] not in ('set', 'unknown') or (ka == UNKNOWN and kb == UNKNOWN) \
                    or elem_of(ka) not in (NODE, UNKNOWN) or elem_of(kb) not in (NODE, UNKNOWN):
                raise Unsupported(e, f'{sym} is only supported between sets of identifiers')
            return f'{fn} eqb {self.atom(a)} {self.atom(b)}', SET(NODE), True
        if isinstance(e, ast.Call):
            return self.call(e, env, fx, hint)
        if isinstance(e, ast.Attribute):
            return self.attribute(e, env, fx)
        raise Unsupported(e, f'unsupported expression {type(e).__name__}')

    def attribute(self, e, env, fx):
        """EdgeType.<NAME>, <edge>.edge_type, <edge>.source.identifier, <edge>.destination.identifier"""
        if not isinstance(e.ctx, ast.Load):
            raise Unsupported(e, 'assignment to an attribute')
        if isinstance(e.value, ast.Name) and e.value.id == 'EdgeType' and 'EdgeType' not in env:
            if e.attr not in EDGE_TYPES:
                raise Unsupported(e, f'unknown edge type {e.attr}')
            return EDGE_TYPES[e.attr], ETYPE, True
        if e.attr == 'identifier' and isinstance(e.value, ast.Attribute) and e.value.attr in ('source', 'destination'):
            t, k, _ = self.expr(e.value.value, env, fx)
            self.want(e.value.value, k, EDGE)
            return f'py_edge_{e.value.attr}_identifier {self.atom(t)}', NODE, True
        if e.attr == 'edge_type':
            t, k, _ = self.expr(e.value, env, fx)
            self.want(e.value, k, EDGE)
            return f'py_edge_edge_type {self.atom(t)}', ETYPE, True
        raise Unsupported(e, f'unsupported attribute .{e.attr}')

    def comprehension(self, e, env, fx):
        """[elt for x in xs] -> map; every other list / set comprehension -> nested flat_map."""
        is_set = isinstance(e, ast.SetComp)
        env2 = dict(env)
        gens = []
        for i, g in enumerate(e.generators):
            if g.is_async or not isinstance(g.target, ast.Name):
                raise Unsupported(e, 'unsupported comprehension')
            # only the first iterable is evaluated once, outside the comprehension
            it, kit, _ = self.expr(g.iter, env2, fx if i == 0 else None)
            if kit[0] not in ('list', 'set'):
                raise Unsupported(g.iter, 'comprehension over something that is not a list / set')
            it, kit = self.iter_set(it, kit)
            if g.target.id in env2 or g.target.id in self.funcs:
                raise Unsupported(g.target, f'comprehension variable {g.target.id} shadows another name')
            env2[g.target.id] = Var(self.vname(g.target.id), elem_of(kit), owned=False)
            conds = []
            for c in g.ifs:
                t, k, _ = self.expr(c, env2, None)
                self.want(c, k, BOOL)
                conds.append(f'({t})')
            gens.append((self.vname(g.target.id), it, conds))
        body, kb, _ = self.expr(e.elt, env2, None)
        if is_set and kb not in (NODE, UNKNOWN):
            raise Unsupported(e, 'only set comprehensions of identifiers are supported')
        if not is_set and len(gens) == 1 and not gens[0][2]:
            v, it, _ = gens[0]
            return f'map (fun {v} => {body}) ({it})', LIST(kb), True
        text = f'[{body}]'
        for v, it, conds in reversed(gens):
            if conds:
                text = f'if {" && ".join(conds)} then {text} else []'
            text = f'flat_map (fun {v} => {text}) ({it})'
        if is_set:
            return f'py_set_of eqb ({text})', SET(NODE), True
        return text, LIST(kb), True

    @staticmethod
    def want(node, kind, expected):
        if kind != expected and kind != UNKNOWN:
            raise Unsupported(node, f'expected a value of kind {expected[0]}, got {kind[0]}')

    def compare(self, e, env, fx):
        if len(e.ops) != 1:
            raise Unsupported(e, 'chained comparisons are not supported')
        op, l, r = e.ops[0], e.left, e.comparators[0]
        if isinstance(op, (ast.Is, ast.IsNot)):
            if not (isinstance(r, ast.Constant) and r.value is None):
                raise Unsupported(e, '`is` is only supported against None')
            t, k, _ = self.expr(l, env, fx)
            self.want(l, k, NODE)
            return (f'eqb {self.atom(t)} py_None' if isinstance(op, ast.Is)
                    else f'negb (eqb {self.atom(t)} py_None)'), BOOL, True
        tl, kl, _ = self.expr(l, env, fx)
        tr, kr, _ = self.expr(r, env, fx)
        if isinstance(op, (ast.In, ast.NotIn)):
            if kr[0] not in ('set', 'list', 'view', 'unknown'):
                raise Unsupported(r, 'membership test in something that is not a collection')
            if kl == TUPLE(NODE, NODE) and kr == LIST(TUPLE(NODE, NODE)):
                t = f'py_pair_memb eqb {self.atom(tl)} {self.atom(tr)}'
                return (t if isinstance(op, ast.In) else f'negb ({t})'), BOOL, True
            if kl not in (NODE, UNKNOWN) or elem_of(kr) not in (NODE, UNKNOWN):
                raise Unsupported(e, 'membership tests are only supported for identifiers and pairs of identifiers')
            t = f'memb eqb {self.atom(tl)} {self.atom(tr)}'
            return (t if isinstance(op, ast.In) else f'negb ({t})'), BOOL, True
        if isinstance(op, (ast.Eq, ast.NotEq)):
            if kl == INT and kr == INT:
                t = f'Nat.eqb {self.atom(tl)} {self.atom(tr)}'
            elif kl == NODE and kr == NODE:
                t = f'eqb {self.atom(tl)} {self.atom(tr)}'
            elif kl == ETYPE and kr == ETYPE:
                t = f'etype_eqb {self.atom(tl)} {self.atom(tr)}'
            else:
                raise Unsupported(e, f'== between kinds {kl[0]} and {kr[0]} is not supported')
            return (t if isinstance(op, ast.Eq) else f'negb ({t})'), BOOL, True
        if kl != INT or kr != INT:
            raise Unsupported(e, 'order comparisons are only supported on integers')
        if isinstance(op, ast.Gt):
            return f'Nat.ltb {self.atom(tr)} {self.atom(tl)}', BOOL, True
        if isinstance(op, ast.GtE):
            return f'Nat.leb {self.atom(tr)} {self.atom(tl)}', BOOL, True
        if isinstance(op, ast.Lt):
            return f'Nat.ltb {self.atom(tl)} {self.atom(tr)}', BOOL, True
        if isinstance(op, ast.LtE):
            return f'Nat.leb {self.atom(tl)} {self.atom(tr)}', BOOL, True
        raise Unsupported(e, 'unsupported comparison')

    @staticmethod
    def atom(t):
        """Parenthesise a term unless it is atomic."""
        if all(c.isalnum() or c in "_'." for c in t):
            return t
        if t.startswith('(') and t.endswith(')') and Translator.balanced(t[1:-1]):
            return t
        if t.startswith('[') and t.endswith(']'):
            return t
        return f'({t})'

    @staticmethod
    def balanced(s):
        d = 0
        for c in s:
            if c == '(':
                d += 1
            elif c == ')':
                d -= 1
                if d < 0:
                    return False
        return d == 0

    def plain_args(self, e, n, env, fx, names=None):
        """Positional (or, with `names`, keyword) arguments of a library call."""
        if names and e.keywords and not e.args:
            kws = {k.arg: k.value for k in e.keywords}
            if sorted(kws) != sorted(names):
                raise Unsupported(e, f'expected the keywords {names}')
            args = [kws[nm] for nm in names]
        else:
            if e.keywords:
                raise Unsupported(e, 'unexpected keyword arguments')
            args = list(e.args)
        if len(args) != n:
            raise Unsupported(e, f'expected {n} argument(s)')
        for a in args:
            if isinstance(a, ast.Starred):
                raise Unsupported(e, 'unexpected * argument')
        return [self.expr(a, env, fx) for a in args]

    def bind(self, node, fx, pattern, comp):
        if fx is None:
            raise Unsupported(node, 'a call that can raise occurs in a conditionally evaluated position')
        fx.binds.append((pattern, comp))

    def call(self, e, env, fx, hint):
        f = e.func
        # ---- builtins and translated functions
        if isinstance(f, ast.Name):
            if f.id in env:
                raise Unsupported(e, f'call of the local variable {f.id}')
            if f.id == 'set':
                if not e.args and not e.keywords:
                    return 'py_set_empty', SET(UNKNOWN), True
                (t, k, _), = self.plain_args(e, 1, env, fx)
                if k[0] not in ('set', 'list', 'view') or elem_of(k) not in (NODE, UNKNOWN):
                    raise Unsupported(e, 'set(...) of something that is not a collection of identifiers')
                return f'py_set_of eqb {self.atom(t)}', SET(NODE), True
            if f.id == 'list':
                if not e.args and not e.keywords:
                    return 'py_list_empty', LIST(UNKNOWN), True
                (t, k, _), = self.plain_args(e, 1, env, fx)
                if k[0] not in ('set', 'list', 'view'):
                    raise Unsupported(e, 'list(...) of something that is not a collection')
                t, k = self.iter_set(t, k)
                return f'py_list {self.atom(t)}', LIST(elem_of(k)), True
            if f.id == 'len':
                (t, k, _), = self.plain_args(e, 1, env, fx)
                if k[0] not in ('set', 'list'):
                    raise Unsupported(e, 'len(...) of something that is not a list / set')
                return f'length {self.atom(t)}', INT, True
            if f.id == 'isinstance':
                if len(e.args) != 2 or e.keywords:
                    raise Unsupported(e, 'isinstance needs two arguments')
                t, k, _ = self.expr(e.args[0], env, fx)
                cls = ast.unparse(e.args[1]).replace(' ', '')
                if k == CG and cls in ('CausalGraph', '(CausalGraph,Skeleton)'):
                    return 'true', BOOL, True
                raise Unsupported(e, 'unsupported isinstance test')
            if f.id == 'combinations':
                if len(e.args) != 2 or e.keywords or not (isinstance(e.args[1], ast.Constant) and e.args[1].value == 2):
                    raise Unsupported(e, 'only combinations(<collection>, 2) is supported')
                t, k, _ = self.expr(e.args[0], env, fx)
                if k[0] not in ('set', 'list') or elem_of(k) not in (NODE, UNKNOWN):
                    raise Unsupported(e, 'combinations(x, 2): x must be a list / set of identifiers')
                t, k = self.iter_set(t, k)
                return f'py_combinations2 {self.atom(t)}', LIST(TUPLE(NODE, NODE)), True
            if f.id in self.funcs:
                return self.user_call(e, env, fx, hint)
            raise Unsupported(e, f'call of unknown function {f.id}')
        if not isinstance(f, ast.Attribute):
            raise Unsupported(e, 'unsupported callee')
        # ---- module / class level functions
        if isinstance(f.value, ast.Name) and f.value.id not in env:
            q = f'{f.value.id}.{f.attr}'
            if q == 'networkx.ancestors':
                (g, kg, _), (n, kn, _) = self.plain_args(e, 2, env, fx)
                self.want(e.args[0], kg, NX)
                self.want(e.args[1], kn, NODE)
                return f'py_nx_ancestors eqb {self.atom(g)} {self.atom(n)}', SET(NODE), True
            if q == 'Node.identifier_from':
                (t, k, _), = self.plain_args(e, 1, env, fx)
                self.want(e.args[0], k, NODE)
                return t, NODE, False
            if q == 'set.intersection':
                if len(e.args) != 1 or e.keywords or not isinstance(e.args[0], ast.Starred):
                    raise Unsupported(e, 'only set.intersection(*<list of sets>) is supported')
                t, k, _ = self.expr(e.args[0].value, env, fx)
                if k[0] != 'list' or elem_of(k)[0] not in ('set', 'unknown'):
                    raise Unsupported(e, 'set.intersection(*x): x must be a list of sets')
                name = hint or self.fresh()
                self.bind(e, fx, name, f'py_set_intersection_star eqb {self.atom(t)}')
                return name, SET(NODE), True
            raise Unsupported(e, f'call of unknown function {q}')
        # ---- methods
        recv, krecv, _ = self.expr(f.value, env, fx)
        m = f.attr
        if m in MUTATORS:
            raise Unsupported(e, f'.{m}(...) is only supported as a statement on a local name')
        R = self.atom(recv)

        def node_arg(n=1, names=None):
            parts = self.plain_args(e, n, env, fx, names)
            for (t, k, _) in parts:
                self.want(e, k, NODE)
            return [self.atom(p[0]) for p in parts]

        if krecv == CG:
            if m == 'is_dag':
                self.plain_args(e, 0, env, fx)
                return f'py_cg_is_dag eqb {R}', BOOL, True
            if m == 'node_exists':
                a, = node_arg()
                return f'py_cg_node_exists eqb {R} {a}', BOOL, True
            if m == 'get_ancestors':
                a, = node_arg()
                return f'py_cg_get_ancestors eqb {R} {a}', SET(NODE), True
            if m == 'get_descendants':
                a, = node_arg()
                return f'py_cg_get_descendants eqb {R} {a}', SET(NODE), True
            if m == 'get_children':
                a, = node_arg()
                return f'py_cg_get_children eqb py_order {self.site()} {R} {a}', LIST(NODE), True
            if m == 'get_parents':
                a, = node_arg()
                return f'py_cg_get_parents eqb py_order {self.site()} {R} {a}', LIST(NODE), True
            if m == 'get_neighbors':
                a, = node_arg()
                return f'py_cg_get_neighbors eqb py_order {self.site()} {R} {a}', LIST(NODE), True
            if m == 'get_all_causal_paths':
                a, b = node_arg(2, ['source', 'destination'])
                name = hint or self.fresh()
                self.bind(e, fx, name, f'py_cg_get_all_causal_paths eqb py_order {self.site()} {R} {a} {b}')
                return name, LIST(LIST(NODE)), True
            if m == 'copy':
                self.plain_args(e, 0, env, fx)
                return f'py_cg_copy {R}', CG, True
            if m == 'to_networkx':
                self.plain_args(e, 0, env, fx)
                return f'py_cg_to_networkx {R}', NX, True
        if krecv == MCG:
            if m == 'get_node_names':
                self.plain_args(e, 0, env, fx)
                return f'py_mcg_get_node_names {R}', LIST(NODE), True
            if m == 'get_bidirected_edges':
                self.plain_args(e, 0, env, fx)
                return f'py_mcg_get_bidirected_edges {R}', LIST(EDGE), True
            if m == 'get_neighbors':
                a, = node_arg()
                return f'py_mcg_get_neighbors eqb py_order {self.site()} {R} {a}', LIST(NODE), True
            if m == 'edge_exists':
                a, b = node_arg(2)
                return f'py_mcg_edge_exists eqb {R} {a} {b}', BOOL, True
            if m == 'get_edge':
                a, b = node_arg(2)
                name = hint or self.fresh()
                self.bind(e, fx, name, f'py_mcg_get_edge eqb {R} {a} {b}')
                return name, EDGE, True
        if krecv == NX:
            if m == 'successors':
                a, = node_arg()
                return f'py_nx_successors eqb py_order {self.site()} {R} {a}', VIEW(NODE), False
            if m == 'predecessors':
                a, = node_arg()
                return f'py_nx_predecessors eqb py_order {self.site()} {R} {a}', VIEW(NODE), False
        if krecv[0] == 'set' or (krecv == UNKNOWN and m in ('union', 'intersection', 'difference')):
            if m == 'copy':
                self.plain_args(e, 0, env, fx)
                return f'py_copy {R}', krecv, True
            if m in ('union', 'intersection', 'difference'):
                (t, k, _), = self.plain_args(e, 1, env, fx)
                if k[0] not in ('set', 'list') or elem_of(k) not in (NODE, UNKNOWN):
                    raise Unsupported(e, f'.{m}(x): x must be a list / set of identifiers')
                fn = {'union': 'py_union', 'intersection': 'py_inter', 'difference': 'py_diff'}[m]
                return f'{fn} eqb {R} {self.atom(t)}', SET(NODE), True
        raise Unsupported(e, f'unsupported method .{m}(...) on a value of kind {krecv[0]}')

    def user_call(self, e, env, fx, hint):
        callee = self.funcs[e.func.id]
        if callee.nested_in is not None and self.cur.name not in (callee.name, callee.nested_in.name):
            raise Unsupported(e, f'{callee.name} is not visible here')
        params = callee.params
        given = {}
        if len(e.args) > len(params):
            raise Unsupported(e, 'too many arguments')
        for (p, _, _), a in zip(params, e.args):
            if isinstance(a, ast.Starred):
                raise Unsupported(e, 'unexpected * argument')
            given[p] = a
        for kw in e.keywords:
            if kw.arg is None or kw.arg in given or kw.arg not in [p for p, _, _ in params]:
                raise Unsupported(e, 'bad keyword argument')
            given[kw.arg] = kw.value
        texts, rebound = [], []
        for p, kind, dflt in params:
            a = given.get(p, dflt)
            if a is None:
                raise Unsupported(e, f'missing argument {p}')
            t, k, fresh = self.expr(a, env, fx)
            if k != kind and k != UNKNOWN:
                raise Unsupported(a, f'argument {p}: expected kind {kind[0]}, got {k[0]}')
            if p in callee.mutated:
                if isinstance(a, ast.Name):
                    v = env[a.id]
                    if not (v.owned or v.param):
                        raise Unsupported(a, f'{a.id} is mutated by the call but does not own its object')
                    if v.coq in rebound:
                        raise Unsupported(a, 'the same object is passed twice to mutated parameters')
                    rebound.append(v.coq)
                    if fx is not None:
                        fx.rebound.append((v.coq, e))
                elif fresh:
                    rebound.append('_')
                else:
                    raise Unsupported(a, 'a mutated parameter must receive a local name or a fresh object')
            elif is_mutable(k) and isinstance(a, ast.Name):
                pass    # read-only use of a mutable object by the callee: fine (the callee does not store it)
            texts.append(self.atom(t))
        fuel = ''
        if callee.needs_fuel:
            fuel = "fuel' " if self.cur.recursive else 'fuel '
        name = hint or self.fresh()
        pat = self.tuple_pat(rebound + [name]) if rebound else name
        self.bind(e, fx, pat, f'gen_{callee.name} {GEN_ARGS} {fuel}' + ' '.join(texts))
        kind = callee.ret_kind if callee.ret_kind is not None else UNKNOWN
        return name, kind, True

    # ------------------------------------------------------------------------------------------------ statements
    class Ctx:
        def __init__(self, inj, fall, brk, depth):
            self.inj, self.fall, self.brk, self.depth = inj, fall, brk, depth

    def emit_binds(self, fx, ctx, inner):
        out = inner
        for pat, comp in reversed(fx.binds):
            out = f'py_bind {ctx.inj} ({comp}) (fun {pat} =>\n{out})'
        return out

    def check_rebound(self, st, fx, env):
        """An object mutated by a call may not be mentioned (under any of its names) elsewhere in the statement:
        the hoisting of the call would change the order of reads and writes."""
        for coq, callnode in fx.rebound:
            count = sum(1 for n in ast.walk(st)
                        if isinstance(n, ast.Name) and n.id in env and env[n.id].coq == coq)
            if count != 1:
                raise Unsupported(st, f'{coq[2:]} is mutated by a call and used elsewhere in the same statement')

    def block(self, stmts, env, ctx):
        if not stmts:
            return ctx.fall(env)
        st, rest = stmts[0], stmts[1:]
        cm = self.line_comment(st)
        if isinstance(st, ast.Pass):
            return self.block(rest, env, ctx)
        if isinstance(st, ast.Expr) and isinstance(st.value, ast.Constant) and isinstance(st.value.value, str):
            return self.block(rest, env, ctx)
        if isinstance(st, ast.FunctionDef):
            if ctx.depth != 0:
                raise Unsupported(st, 'nested function definitions are only supported at the top of a function')
            return self.block(rest, env, ctx)
        if isinstance(st, (ast.Assign, ast.AnnAssign)):
            return cm + '\n' + self.assign(st, rest, env, ctx)
        if isinstance(st, ast.Expr) and self.is_logging_call(st.value, env):
            return cm[:-3] + '   -- logging: no effect on the computation *)\n' + self.block(rest, env, ctx)
        if isinstance(st, ast.Expr):
            return cm + '\n' + self.mutation(st, rest, env, ctx)
        if isinstance(st, ast.Return):
            return cm + '\n' + self.ret(st, env, ctx)
        if isinstance(st, ast.Raise):
            return cm + '\n' + self.raise_(st, env, ctx)
        if isinstance(st, ast.Break):
            if ctx.brk is None:
                raise Unsupported(st, 'break outside a loop')
            return cm + '\n' + ctx.brk(env)
        if isinstance(st, ast.Continue):
            if ctx.brk is None:
                raise Unsupported(st, 'continue outside a loop')
            return cm + '\n' + ctx.loop_fall(env)
        if isinstance(st, ast.If):
            return cm + '\n' + self.if_(st, rest, env, ctx)
        if isinstance(st, ast.For):
            return cm + '\n' + self.for_(st, rest, env, ctx)
        raise Unsupported(st, f'unsupported statement {type(st).__name__}')

    def is_logging_call(self, e, env):
        """`<logger>.debug/info/warning/error/critical(...)` whose arguments cannot raise or change anything: the
        statement is translated to nothing.  A logging call with any other argument is refused."""
        if not (isinstance(e, ast.Call) and isinstance(e.func, ast.Attribute) and isinstance(e.func.value, ast.Name)
                and e.func.value.id in self.loggers and e.func.value.id not in env):
            return False
        if e.func.attr not in LOG_METHODS:
            raise Unsupported(e, f'unsupported use of the logger: .{e.func.attr}')
        for a in list(e.args) + [k.value for k in e.keywords]:
            if isinstance(a, ast.Starred) or not self.harmless(a, env):
                raise Unsupported(a, 'argument of a logging call that is not obviously free of effects')
        if any(k.arg is None for k in e.keywords):
            raise Unsupported(e, 'unsupported logging call')
        return True

    def harmless(self, a, env):
        """Expressions that can be evaluated without raising and without changing anything: defined names,
        constants, attribute reads of such, len(..) of a list / set, tuples, f-strings of such, and
        '<constant>' % (...) when the number of arguments matches and every conversion is %s / %r (or %d / %i applied
        to len(..), an integer constant or an integer / boolean name)."""
        if isinstance(a, ast.Constant):
            return True
        if isinstance(a, ast.Name):
            return isinstance(a.ctx, ast.Load) and a.id in env
        if isinstance(a, ast.Attribute):
            # attribute reads of the objects the translated functions handle (edges, nodes) have no effects; the
            # attribute must be one the translator knows
            return isinstance(a.ctx, ast.Load) and a.attr in ('identifier', 'source', 'destination', 'edge_type') \
                and self.harmless(a.value, env)
        if isinstance(a, ast.Tuple):
            return all(self.harmless(x, env) for x in a.elts)
        if isinstance(a, ast.Call):
            if isinstance(a.func, ast.Name) and a.func.id == 'len' and 'len' not in env and len(a.args) == 1 \
                    and not a.keywords and isinstance(a.args[0], ast.Name) and a.args[0].id in env:
                return env[a.args[0].id].kind[0] in ('set', 'list')
            return False
        if isinstance(a, ast.JoinedStr):
            for v in a.values:
                if isinstance(v, ast.Constant):
                    continue
                if isinstance(v, ast.FormattedValue) and v.format_spec is None and self.harmless(v.value, env):
                    continue
                return False
            return True
        if isinstance(a, ast.BinOp) and isinstance(a.op, ast.Mod) and isinstance(a.left, ast.Constant) \
                and isinstance(a.left.value, str):
            import re
            fmt = a.left.value.replace('%%', '')
            specs = re.findall(r'%(.)', fmt)
            args = list(a.right.elts) if isinstance(a.right, ast.Tuple) else [a.right]
            if len(specs) != len(args):
                return False
            for c, x in zip(specs, args):
                if isinstance(x, ast.Tuple) or not self.harmless(x, env):
                    return False
                is_int = (isinstance(x, ast.Call)                                       # len(..), checked above
                          or (isinstance(x, ast.Constant) and isinstance(x.value, int))
                          or (isinstance(x, ast.Name) and env[x.id].kind in (INT, BOOL)))
                if not (c in 'sr' or (c in 'di' and is_int)):
                    return False
            return True
        return False

    def effectful(self, e, env):
        """Does the evaluation of e need a hoisted call (something that can raise / run out of fuel)?"""
        probe = self.Fx()
        saved = (self.tmp, self.cur.ret_kind)
        try:
            self.expr(e, env, probe)
        finally:
            self.tmp, self.cur.ret_kind = saved
        return bool(probe.binds)

    def desugar_boolop(self, st, tgt, val, env):
        """`x = A and B` / `x = A or B` where B can raise: Python evaluates B only when A is true / false, so the
        assignment is translated as `if A: x = B else: x = False` / `if A: x = True else: x = B` (A, B booleans)."""
        if not (isinstance(val, ast.BoolOp) and len(val.values) == 2):
            return None
        a, b = val.values
        if not self.effectful(b, env):
            return None
        saved = (self.tmp, self.cur.ret_kind)
        _, ka, _ = self.expr(a, env, self.Fx())
        _, kb, _ = self.expr(b, env, self.Fx())
        self.tmp, self.cur.ret_kind = saved
        self.want(a, ka, BOOL)
        self.want(b, kb, BOOL)

        def asg(v):
            n = ast.Assign(targets=[ast.Name(id=tgt.id, ctx=ast.Store())], value=v)
            return ast.fix_missing_locations(ast.copy_location(n, st))

        def const(c):
            return ast.copy_location(ast.Constant(value=c), st)

        if isinstance(val.op, ast.And):
            node = ast.If(test=a, body=[asg(b)], orelse=[asg(const(False))])
            how = f'{tgt.id} = A and B  ==>  if A: {tgt.id} = B  else: {tgt.id} = False   (B can raise)'
        else:
            node = ast.If(test=a, body=[asg(const(True))], orelse=[asg(b)])
            how = f'{tgt.id} = A or B  ==>  if A: {tgt.id} = True  else: {tgt.id} = B   (B can raise)'
        node = ast.fix_missing_locations(ast.copy_location(node, st))
        node.py_desugared = how
        for sub in node.body + node.orelse:
            sub.py_desugared = f'{tgt.id} = ...'
        return node

    def check_rebind(self, node, env, pyname):
        """Rebinding the Coq variable v_<pyname> is only sound when no OTHER Python name is translated to it."""
        coq = self.vname(pyname)
        for other, v in env.items():
            if other != pyname and v.coq == coq:
                raise Unsupported(node, f'{pyname} is assigned while {other} is an alias of its old value')

    def assign(self, st, rest, env, ctx):
        if isinstance(st, ast.Assign):
            if len(st.targets) != 1:
                raise Unsupported(st, 'chained assignment is not supported')
            tgt = st.targets[0]
        else:
            tgt = st.target
            if st.value is None:
                raise Unsupported(st, 'annotation without a value')
        val = st.value
        env = dict(env)
        if isinstance(tgt, ast.Name):
            if tgt.id in self.funcs:
                raise Unsupported(st, f'assignment to the function name {tgt.id}')
            # alias
            if isinstance(val, ast.Name):
                if val.id not in env:
                    raise Unsupported(val, f'name {val.id} is not defined here')
                src = env[val.id]
                if is_immutable(src.kind):
                    self.check_rebind(st, env, tgt.id)
                    env[tgt.id] = Var(self.vname(tgt.id), src.kind, owned=False)
                    return f'let {self.vname(tgt.id)} := {src.coq} in\n' + self.block(rest, env, ctx)
                if ctx.depth != 0:
                    raise Unsupported(st, 'an alias of a mutable object may only be created at the top level of a '
                                      'function body')
                if not (src.owned or src.param):
                    raise Unsupported(st, f'{val.id} does not own its object: alias refused')
                if tgt.id in env and env[tgt.id] is not src:
                    pass    # the old binding of the target is simply dropped
                env[tgt.id] = src
                return f'(* alias: {tgt.id} is {val.id} (one Coq variable: {src.coq}) *)\n' + self.block(rest, env, ctx)
            desugared = self.desugar_boolop(st, tgt, val, env)
            if desugared is not None:
                return self.block([desugared] + rest, env, ctx)
            fx = self.Fx()
            t, k, fresh = self.expr(val, env, fx, hint=self.vname(tgt.id))
            self.check_rebound(st, fx, env)
            if is_mutable(k) and not fresh:
                raise Unsupported(st, 'assignment of a shared mutable object')
            self.check_rebind(st, env, tgt.id)
            env[tgt.id] = Var(self.vname(tgt.id), k, owned=fresh)
            inner = self.block(rest, env, ctx)
            if t != self.vname(tgt.id):
                inner = f'let {self.vname(tgt.id)} := {t} in\n{inner}'
            return self.emit_binds(fx, ctx, inner)
        if isinstance(tgt, ast.Tuple):
            names = []
            for x in tgt.elts:
                if not isinstance(x, ast.Name):
                    raise Unsupported(st, 'unsupported assignment target')
                names.append(x.id)
            if len(set(n for n in names if n != '_')) != len([n for n in names if n != '_']):
                raise Unsupported(st, 'repeated name in a tuple target')
            fx = self.Fx()
            t, k, _ = self.expr(val, env, fx)
            self.check_rebound(st, fx, env)
            if k[0] != 'tuple' or len(k[1]) != len(names):
                raise Unsupported(st, 'tuple assignment from something that is not a tuple of that length')
            pats = []
            for n, kk in zip(names, k[1]):
                if not is_immutable(kk):
                    raise Unsupported(st, 'tuple components must be identifiers / integers')
                if n == '_':
                    pats.append('_')
                else:
                    if n in self.funcs:
                        raise Unsupported(st, f'assignment to the function name {n}')
                    self.check_rebind(st, env, n)
                    env[n] = Var(self.vname(n), kk, owned=False)
                    pats.append(self.vname(n))
            inner = f"let '({', '.join(pats)}) := {t} in\n" + self.block(rest, env, ctx)
            return self.emit_binds(fx, ctx, inner)
        raise Unsupported(st, 'unsupported assignment target')

    def mutation(self, st, rest, env, ctx):
        e = st.value
        if not (isinstance(e, ast.Call) and isinstance(e.func, ast.Attribute) and e.func.attr in MUTATORS
                and isinstance(e.func.value, ast.Name)):
            raise Unsupported(st, 'unsupported expression statement')
        name, m = e.func.value.id, e.func.attr
        if name not in env:
            raise Unsupported(st, f'name {name} is not defined here')
        v = env[name]
        if not (v.owned or v.param):
            raise Unsupported(st, f'{name} does not own the object it denotes: in-place mutation refused')
        if v.param and name not in self.cur.mutated and \
                not any(env.get(p) is v for p in self.cur.mutated):
            raise Unsupported(st, f'internal: mutated parameter {name} was not detected')
        env = dict(env)
        fx = self.Fx()
        k = v.kind

        def stored(a):
            t, ka, _ = self.expr(a, env, fx)
            if isinstance(a, ast.Name) and not is_immutable(ka):
                raise Unsupported(a, 'storing a name of mutable kind into a container is refused')
            return self.atom(t), ka

        new, failing = None, False
        if k[0] == 'set' and m in ('add', 'remove'):
            if len(e.args) != 1 or e.keywords:
                raise Unsupported(st, f'.{m} needs one argument')
            a, ka = stored(e.args[0])
            self.want(e.args[0], ka, NODE)
            if m == 'add':
                new = f'py_set_add eqb {v.coq} {a}'
            else:
                new, failing = f'py_set_remove eqb {v.coq} {a}', True
            newkind = SET(merge_kind(k[1], ka))
        elif k[0] == 'list' and m == 'append':
            if len(e.args) != 1 or e.keywords:
                raise Unsupported(st, '.append needs one argument')
            a, ka = stored(e.args[0])
            new = f'py_list_append {v.coq} {a}'
            newkind = LIST(merge_kind(k[1], ka))
        elif k == CG and m == 'remove_edge':
            parts = self.plain_args(e, 2, env, fx, ['source', 'destination'])
            for t, ka, _ in parts:
                self.want(e, ka, NODE)
            new, failing = f'py_cg_remove_edge eqb {v.coq} ' + ' '.join(self.atom(p[0]) for p in parts), True
            newkind = k
        elif k == NX and m == 'remove_edge':
            parts = self.plain_args(e, 2, env, fx)
            for t, ka, _ in parts:
                self.want(e, ka, NODE)
            new, failing = f'py_nx_remove_edge eqb {v.coq} ' + ' '.join(self.atom(p[0]) for p in parts), True
            newkind = k
        elif k == NX and m == 'add_edge':
            if len(e.args) == 1 and isinstance(e.args[0], ast.Starred) and not e.keywords:
                t, ka, _ = self.expr(e.args[0].value, env, fx)
                if ka not in (TUPLE(NODE, NODE), UNKNOWN):
                    raise Unsupported(st, 'add_edge(*e): e must be a pair of identifiers')
                new = f'py_nx_add_edge eqb {v.coq} (fst {self.atom(t)}) (snd {self.atom(t)})'
            else:
                parts = self.plain_args(e, 2, env, fx)
                for t, ka, _ in parts:
                    self.want(e, ka, NODE)
                new = f'py_nx_add_edge eqb {v.coq} ' + ' '.join(self.atom(p[0]) for p in parts)
            newkind = k
        else:
            raise Unsupported(st, f'unsupported mutation .{m}(...) on a value of kind {k[0]}')
        if fx.rebound:
            raise Unsupported(st, 'a mutating call inside the arguments of a mutation is not supported')
        # all names bound to the same Coq variable see the new kind
        for n2, v2 in list(env.items()):
            if v2 is v:
                env[n2] = Var(v.coq, newkind, v.owned, v.param)
        shared = env[name]
        for n2 in list(env):
            if env[n2].coq == v.coq:
                env[n2] = shared
        inner = self.block(rest, env, ctx)
        if failing:
            inner = f'py_bind {ctx.inj} ({new}) (fun {v.coq} =>\n{inner})'
        else:
            inner = f'let {v.coq} := {new} in\n{inner}'
        return self.emit_binds(fx, ctx, inner)

    def ret(self, st, env, ctx):
        if st.value is None:
            raise Unsupported(st, 'return without a value')
        fx = self.Fx()
        if isinstance(st.value, ast.Name) and st.value.id in env and env[st.value.id].param \
                and is_mutable(env[st.value.id].kind):
            raise Unsupported(st, 'returning a parameter is refused (the result would alias the argument)')
        t, k, fresh = self.expr(st.value, env, fx)
        self.check_rebound(st, fx, env)
        if is_mutable(k) and not fresh and not (isinstance(st.value, ast.Name) and env[st.value.id].owned):
            raise Unsupported(st, 'returning a shared mutable object is refused')
        cur = self.cur
        if cur.ret_kind is None:
            cur.ret_kind = k
        else:
            if cur.ret_kind[0] != k[0] and k != UNKNOWN:
                raise Unsupported(st, f'return kinds differ: {cur.ret_kind[0]} and {k[0]}')
            cur.ret_kind = merge_kind(cur.ret_kind, k)
        vals = [env[p].coq for p in cur.mutated] + [t]
        val = self.tuple_val(vals) if len(vals) > 1 else self.atom(t)
        return self.emit_binds(fx, ctx, f'{ctx.inj} (Ret {val})')

    def raise_(self, st, env, ctx):
        if st.cause is not None or st.exc is None or not isinstance(st.exc, ast.Call):
            raise Unsupported(st, 'only `raise E(...)` is supported')
        f = st.exc.func
        name = f.id if isinstance(f, ast.Name) else (f.attr if isinstance(f, ast.Attribute) else None)
        if isinstance(f, ast.Attribute) and ast.unparse(f.value) != 'CausalGraphErrors':
            raise Unsupported(st, 'unknown exception class')
        if name not in EXCEPTIONS:
            raise Unsupported(st, f'unknown exception class {name}')
        for a in st.exc.args:
            if isinstance(a, ast.Constant) and isinstance(a.value, str):
                continue
            if isinstance(a, ast.JoinedStr):
                for v in a.values:
                    if isinstance(v, ast.Constant):
                        continue
                    if isinstance(v, ast.FormattedValue) and isinstance(v.value, ast.Name) and v.value.id in env \
                            and v.format_spec is None:
                        continue
                    if isinstance(v, ast.FormattedValue) and v.format_spec is None and isinstance(v.value, ast.Call) \
                            and isinstance(v.value.func, ast.Name) and v.value.func.id == 'type' \
                            and 'type' not in env and len(v.value.args) == 1 and not v.value.keywords \
                            and isinstance(v.value.args[0], ast.Name) and v.value.args[0].id in env:
                        continue
                    raise Unsupported(st, 'exception messages may only mention defined names (or their type)')
                continue
            raise Unsupported(st, 'unsupported exception argument')
        if st.exc.keywords:
            raise Unsupported(st, 'unsupported exception argument')
        return f'{ctx.inj} (Exc {EXCEPTIONS[name]})'

    def if_(self, st, rest, env, ctx):
        fx = self.Fx()
        c, k, _ = self.expr(st.test, env, fx)
        self.want(st.test, k, BOOL)
        if fx.rebound:
            raise Unsupported(st, 'a mutating call in a condition is not supported')
        sub = self.Ctx(ctx.inj, lambda env2: self.block(rest, env2, ctx), ctx.brk, ctx.depth + 1)
        sub.loop_fall = getattr(ctx, 'loop_fall', None)
        a = self.block(list(st.body), env, sub)
        b = self.block(list(st.orelse), env, sub)
        inner = f'if {c}\nthen (\n{self.indent(a)})\nelse (\n{self.indent(b)})'
        return self.emit_binds(fx, ctx, inner)

    @staticmethod
    def indent(text, n=2):
        pad = ' ' * n
        return '\n'.join(pad + ln if ln else ln for ln in text.split('\n'))

    def for_(self, st, rest, env, ctx):
        if st.orelse:
            raise Unsupported(st, 'for ... else is not supported')
        fx = self.Fx()
        it = st.iter
        body = list(st.body)
        if isinstance(it, ast.Call) and isinstance(it.func, ast.Name) and it.func.id == 'enumerate' \
                and 'enumerate' not in env:
            if len(it.args) != 1 or it.keywords:
                raise Unsupported(it, 'enumerate needs exactly one argument')
            t, k, _ = self.expr(it.args[0], env, fx)
            if k[0] not in ('list', 'set'):
                raise Unsupported(it, 'enumerate of something that is not a list / set')
            t, k = self.iter_set(t, k)
            itext, ikind, inner_iter = f'py_enumerate {self.atom(t)}', LIST(TUPLE(INT, elem_of(k))), it.args[0]
        else:
            t, k, _ = self.expr(it, env, fx)
            if k[0] not in ('list', 'set', 'view'):
                raise Unsupported(it, f'iteration over a value of kind {k[0]}')
            was_view = k[0] == 'view'
            t, k = self.iter_set(t, k)
            itext, ikind, inner_iter = t, k, it
        if fx.rebound:
            raise Unsupported(st, 'a mutating call in the iterable of a loop is not supported')
        if not (isinstance(it, ast.Call) and isinstance(it.func, ast.Name) and it.func.id == 'enumerate'
                and 'enumerate' not in env) and was_view and self.mutates_anything(body):
            raise Unsupported(st, 'iteration over a live networkx view while the loop body mutates something '
                              '(take a list(...) snapshot)')
        assigned = self.assigned_names(body, env)
        if isinstance(inner_iter, ast.Name) and inner_iter.id in assigned:
            raise Unsupported(st, f'the loop body changes {inner_iter.id}, which is being iterated over')
        if isinstance(inner_iter, ast.Name):
            v = env[inner_iter.id]
            for n in assigned:
                if n in env and env[n] is v:
                    raise Unsupported(st, f'the loop body changes {n}, which is being iterated over')
        # loop targets
        env_body = dict(env)
        ek = elem_of(ikind)
        if isinstance(st.target, ast.Name):
            tnames = [st.target.id]
            env_body[st.target.id] = Var(self.vname(st.target.id), ek, owned=False)
            tpat = self.vname(st.target.id)
        elif isinstance(st.target, ast.Tuple) and all(isinstance(x, ast.Name) for x in st.target.elts):
            tnames = [x.id for x in st.target.elts]
            if ek[0] != 'tuple' or len(ek[1]) != len(tnames) or len(set(tnames)) != len(tnames):
                raise Unsupported(st, 'loop target does not match the items')
            for n, kk in zip(tnames, ek[1]):
                env_body[n] = Var(self.vname(n), kk, owned=False)
            tpat = "'(" + ', '.join(self.vname(n) for n in tnames) + ')'
        else:
            raise Unsupported(st, 'unsupported loop target')
        for n in tnames:
            if n in self.funcs:
                raise Unsupported(st, f'loop target {n} is a function name')
            if n in env:
                raise Unsupported(st, f'loop target {n} shadows an existing local')
        # state: the Coq variables (existing before the loop) that the body rebinds
        state = []
        for n in assigned:
            if n in tnames:
                raise Unsupported(st, f'the loop body assigns its own target {n}')
            if n in env and env[n].coq not in state:
                state.append(env[n].coq)
        order = []
        for n, v in env.items():
            if v.coq in state and v.coq not in order:
                order.append(v.coq)
        state = order
        spat, sval = self.tuple_pat(state), self.tuple_val(state)
        body_ctx = self.Ctx('py_in', lambda env2: f'Cont {self.atom(sval)}', lambda env2: f'Brk {self.atom(sval)}',
                            ctx.depth + 1)
        body_ctx.loop_fall = body_ctx.fall
        btext = self.block(body, env_body, body_ctx)
        rtext = self.block(rest, dict(env), ctx)
        inner = (f'py_for {ctx.inj} ({itext}) {self.atom(sval)} (fun {tpat} {spat} =>\n{self.indent(btext, 4)})\n'
                 f'(fun {spat} =>\n{rtext})')
        return self.emit_binds(fx, ctx, inner)

    # ------------------------------------------------------------------------------------------------ functions
    def function(self, info):
        self.cur = info
        self.tmp = 0
        self.sites = 0
        env = {}
        params = []
        for p, kind, _ in info.params:
            if p in self.funcs:
                raise Unsupported(info.node, f'parameter {p} is a function name')
            env[p] = Var(self.vname(p), kind, owned=False, param=True)
            params.append(f'({self.vname(p)} : {coq_type(kind)})')
        # a nested function must not use the locals of the enclosing function
        if info.nested_in is not None:
            local = {p for p, _, _ in info.params}
            for n in self.own_nodes(info):
                if isinstance(n, ast.Name) and isinstance(n.ctx, ast.Store):
                    local.add(n.id)
            known = local | set(self.funcs) | {'set', 'list', 'len', 'enumerate', 'isinstance', 'networkx', 'Node',
                                                'CausalGraph', 'Skeleton', 'CausalGraphErrors', 'TypeError',
                                                'ValueError', 'KeyError'} | self.loggers
            in_annotation = set()
            for n in self.own_nodes(info):
                if isinstance(n, ast.AnnAssign):
                    in_annotation.update(id(x) for x in ast.walk(n.annotation))
            for n in self.own_nodes(info):
                if isinstance(n, ast.Name) and n.id not in known and id(n) not in in_annotation:
                    raise Unsupported(n, f'nested function uses the non-local name {n.id}')
        stmts = self.strip_doc(info.node.body)

        def fall(env2):
            raise Unsupported(info.node, 'control can reach the end of the function without a return')

        ctx = self.Ctx('py_top', fall, None, 0)
        body = self.block(list(stmts), env, ctx)
        ret = info.ret_kind if info.ret_kind is not None else UNKNOWN
        rty = coq_type(ret)
        if info.mutated:
            rty = '(' + ' * '.join([coq_type(env[p].kind) for p in info.mutated] + [rty]) + ')'
        elif ' ' in rty and not rty.startswith('('):
            rty = f'({rty})'
        fuel = '(fuel : nat) ' if info.needs_fuel else ''
        head = f'gen_{info.name} {GEN_PARAMS} {fuel}' + ' '.join(params)
        where = f' (nested in {info.nested_in.name})' if info.nested_in is not None else ''
        doc = f'(** [{info.name}]{where}, lines {info.node.lineno}-{info.node.end_lineno} of identify_utils.py.'
        if info.mutated:
            doc += ('\n    Mutates its parameter(s) ' + ', '.join(info.mutated) +
                    ' in place: their final value is returned with the result.')
        doc += ' *)'
        if info.recursive:
            text = (f'{doc}\nFixpoint {head} {{struct fuel}} : pyout {rty} :=\n'
                    f'  match fuel with\n  | O => Fuel\n  | S fuel\' =>\n{self.indent(body, 4)}\n  end.')
        else:
            text = f'{doc}\nDefinition {head} : pyout {rty} :=\n{self.indent(body, 2)}.'
        return text

    def run(self):
        """Translate what can be translated.  Returns {function name: Coq text}; the functions that could not be
        translated are in self.failures.  Raises Unsupported only for module-level problems."""
        defs = self.scan_module()
        self.register_targets(defs)
        self.analyse()
        texts = {}
        for name in list(self.order):
            if name not in self.funcs:
                continue
            try:
                texts[name] = self.function(self.funcs[name])
            except Unsupported as ex:
                self.drop(name, str(ex))
        # a function whose enclosing function was dropped is not emitted either
        return {n: t for n, t in texts.items() if n in self.funcs}


def remove_stale(path):
    """A file that is not (re)written must not survive from an earlier run: it could be compiled by mistake."""
    try:
        if os.path.isfile(path):
            os.remove(path)
    except OSError:
        pass


def file_text(fname, prop, members, imports, texts):
    header = (
        f'(** {fname}.v -- GENERATED by /verif/tools/translate_identify.py from\n'
        f'    cai_causal_graph/identify_utils.py (property {prop}).  DO NOT EDIT: the file is regenerated on every\n'
        '    verification run.  One Gallina function per Python function, statement by statement (the comments quote\n'
        '    the first line of each Python statement); the runtime is PyRt.v, whose header documents the mapping.\n'
        '    Every function takes the same leading parameters: the equality test on identifiers, the values standing\n'
        '    for [None] and for the empty string, and the order [py_order] in which sets (and the collections that the\n'
        '    library builds from sets / dictionaries) are iterated: an arbitrary function, chosen per observation site. *)\n'
        'From CG Require Import Base Digraph Identify Markov PyRt' + ''.join(' ' + i for i in imports) + '.\n\n'
    )
    return header + '\n\n'.join(texts[m] for m in members) + '\n'


def main(argv):
    if len(argv) not in (2, 3):
        sys.stderr.write('usage: translate_identify.py <repo_root> [<output_dir>=' + DEFAULT_OUTPUT_DIR + ']\n')
        return 2
    root = argv[1]
    outdir = argv[2] if len(argv) == 3 else DEFAULT_OUTPUT_DIR
    outs = {fname: os.path.join(outdir, fname + '.v') for fname, _, _ in FILES}
    if not os.path.isdir(outdir):
        sys.stderr.write(f'translate_identify: FAIL: {outdir} is not a directory\n')
        return 2
    path = os.path.join(root, SOURCE)
    try:
        with open(path, 'r', encoding='utf-8') as fh:
            src = fh.read()
        tree = ast.parse(src, filename=path)
        tr = Translator(tree, src)
        texts = tr.run()
    except Unsupported as ex:
        sys.stderr.write(f'translate_identify: FAIL: {path}:{ex} [module level: no file is written]\n')
        for o in outs.values():
            remove_stale(o)
        return 2
    except (OSError, SyntaxError, RecursionError, ValueError) as ex:
        sys.stderr.write(f'translate_identify: FAIL: {path}: {ex} [no file is written]\n')
        for o in outs.values():
            remove_stale(o)
        return 2
    # which file each translated function belongs to
    home = {}
    for fname, targets, _ in FILES:
        for t in targets:
            home[t] = fname
    for name, info in tr.funcs.items():
        if info.nested_in is not None:
            home[name] = home[info.nested_in.name]
    ok, status = {}, 0
    for idx, (fname, targets, prop) in enumerate(FILES):
        reasons = [f'{t}: {tr.failures[t]}' for t in targets if t in tr.failures or t not in texts]
        members = [n for n in tr.order if home.get(n) == fname and n in texts]
        imports = []
        for m in members:
            for c in sorted(tr.funcs[m].calls):
                h = home[c]
                if h != fname and h not in imports:
                    imports.append(h)
        earlier = [f for f, _, _ in FILES[:idx]]
        for h in imports:
            if h not in earlier:
                reasons.append(f'it would have to import {h}, which comes later')
            elif not ok.get(h, False):
                reasons.append(f'it depends on {h}.v, which is not written')
        imports = [f for f in earlier if f in imports]
        text = file_text(fname, prop, members, imports, texts) if not reasons else ''
        if not reasons and len(text) > MAX_OUTPUT_CHARS:
            reasons.append('the generated text is too large (continuation duplication)')
        if reasons:
            ok[fname] = False
            status = 2
            remove_stale(outs[fname])
            for r in reasons:
                sys.stderr.write(f'translate_identify: FAIL: {path}:{r} [{fname}.v is not written]\n')
            continue
        ok[fname] = True
        # regenerated on every run; the file on disk is replaced only when its content differs, so that an unchanged source does
        # not force the proofs that depend on it to be recompiled
        if os.path.exists(outs[fname]):
            with open(outs[fname], 'r', encoding='utf-8') as fh:
                if fh.read() == text:
                    continue
        tmp = outs[fname] + '.tmp'
        with open(tmp, 'w', encoding='utf-8') as fh:
            fh.write(text)
        os.replace(tmp, outs[fname])
    # failures of nested functions are reported through their enclosing function; report the rest for information
    for name, why in tr.failures.items():
        if name not in home or all(name not in t for _, t, _ in FILES):
            sys.stderr.write(f'translate_identify: note: {name}: {why}\n')
    return status


if __name__ == '__main__':
    sys.exit(main(sys.argv))
