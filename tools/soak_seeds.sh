#!/bin/bash
# usage: tools/soak_seeds.sh <seed> [<seed> ...] — every quick check on the unchanged tree under several seeds (false-alarm soak);
# meant for `vp run --with-repo -- tools/soak_seeds.sh 1 2 3`. Evidence goes to a scratch directory.
export VERIF_REPO="${VP_RUN_REPO:-/repo}"
export VERIF_EVIDENCE_DIR=$(pwd)/.soak_evidence
./setup.sh > setup.log 2>&1 || { tail -20 setup.log; exit 2; }
for s in "$@"; do
  for p in C01 C02 C03 C04 C05 C06 C07 C08 C09 C10 C11 C12 C13 C14 C15 C16 C17 C18 C19 C20; do
    VERIF_SEED=$s timeout 3000 ./check $p --tier quick 2>&1 | grep -a "VIOLATION\|obligations=" | sed "s/^/seed=$s /" | cut -c1-220
  done
done
