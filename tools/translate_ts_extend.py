#!/usr/bin/env python3
"""translate_ts_extend.py -- FAIL-CLOSED translator of three methods of class TimeSeriesCausalGraph to Gallina.

usage:  translate_ts_extend.py [<repo_root> [<output_dir>]]
        <repo_root>  defaults to $VERIF_REPO, else /repo
        <output_dir> defaults to ../coq/theories relative to this script

Reads, with `ast` only (repository code is never imported or executed),

    <repo_root>/cai_causal_graph/time_series_causal_graph.py

extracts from class TimeSeriesCausalGraph exactly the methods

    get_minimal_graph, is_minimal_graph, extend_graph

and writes TWO files into <output_dir>, one per consumer property, each translated and failed-closed INDEPENDENTLY:

    TSGenMinimal.v   get_minimal_graph, is_minimal_graph    (C14; proofs: TSGenMinimalProofs.v)
    TSGenExtend.v    extend_graph                           (C15; proofs: TSGenExtendProofs.v)

In TSGenExtend.v the callee `self.get_minimal_graph()` is an API row (ts_get_minimal_graph = TSGraph.minimal); in
TSGenMinimal.v it is the translated method (gen_get_minimal_graph).  Each file contains one Gallina definition per Python
method, statement by statement (every statement is preceded by a comment quoting its first line).  The runtime is
coq/theories/PyRtTSb.v; the table at its top says which Python construct is mapped to which Coq term (the trusted part).
TSGen{Minimal,Extend}Proofs.v prove the generated functions equal to the hand-written model (TSGraph.v), so an edit of the
Python text changes the generated definitions and the proofs either still go through or break.

FAIL CLOSED: exactly the Python subset described below is accepted.  On anything else the tool prints
`translate_ts_extend: FAIL: <file>:<line>: <reason>` to stderr, writes -- for the file of the offending group only -- a stub
that does NOT compile (`Definition translator_failed : False := I.`) and exits with status 2 (0 only when both files are
generated).  A failure at module level (syntax error, class missing or duplicated) makes both files stubs.  Both files are
always written (left untouched when the text is identical).

Translation scheme (same as translate_identify.py / translate_traversal.py where they overlap)
  * continuation-passing translation of statements; `return e` -> inj (Ok e), `raise E(..)` -> inj (Err E'),
    `assert c[, msg]` -> if c then <rest> else inj (Err EAssert); inj is ts_top in a method body, ts_in in a loop body.
  * `for t in it: body` -> ts_for inj it state (fun t state => body) (fun state => rest); `state` is the tuple of the
    variables that exist before the loop and that the body assigns or mutates, in the order of their first assignment /
    mutation in the body.  Variables first assigned in a loop body are local to one iteration; `for .. else` is refused; the
    loop variable must be a fresh name; the iterable must not mention a variable of the state.
  * `if c: A else: B` followed by REST: when at most one branch can fall through, REST is appended to that branch; otherwise
    REST becomes `let join_k := fun state => REST in ..` (state = the existing variables A or B assign or mutate) and both
    branches end in `join_k state`.  Variables first assigned in a branch that falls into a join are local to the branch.
  * `if x is None:` / `if x is not None:` / `assert x is not None` on a value of kind Optional (an Optional[int] parameter,
    the property max_backward_lag, the cache attribute) -> match x with Some x' => .. | None => .. end; the narrowed branch
    reads x'.  `is None` / `is not None` on a value that cannot be None is the constant false / true.  Any other use of
    an Optional value where an int / bool is needed is refused.
  * in-place mutation rebinds the receiver: g.add_edge(..) / g.add_node(..) (g a local graph that OWNS a fresh object:
    self.__class__(..), x.copy(), self.get_minimal_graph()), l.append(x) (l a local list literal), n.meta[TIME_LAG] = k
    (n a local node object that is a private copy: an endpoint of an edge copied with from_dict(to_dict(..)) or built by
    a constructor -- on a node of self the store would change self), self._is_minimal_graph = e (the cache attribute, a parameter of the generated function).
    `a = b` between graph / list names (aliasing), mutation of self or of a non-owned graph are refused.
  * calls that can raise (g.get_edges(), g.get_node(..), l[0], self.get_minimal_graph(), add_edge, add_node) are hoisted,
    in evaluation order, into `ts_bind inj <call> (fun r => ..)` in front of their statement; they are refused where Python
    evaluates conditionally (right operands of and / or, conditional expressions).
  * g.add_edge must be called with validate=False and either (edge=) or (source=, destination=, edge_type=, meta=); the node /
    edge constructors and _get_lagged_node with exactly their keyword sets; any other signature is refused.
  * the default values of the parameters (None / True / False / int constants) are written to `gen_<method>_defaults`
    (pinned by an Example in the proofs file); the generated function itself takes every argument explicitly.
  * logger.<level>(..) with effect-free arguments is dropped; docstrings and `pass` are skipped; annotations of locals are
    ignored; messages of assert / raise may be constants or f-strings over defined names.
  * refused: decorators, nested functions, lambda, while, try, with, comprehensions, starred arguments, augmented assignment,
    tuple assignment, global / nonlocal, del, any attribute, method or function not in the table of PyRtTSb.v.
"""
import ast
import os
import sys

CLASS = 'TimeSeriesCausalGraph'
SOURCE = os.path.join('cai_causal_graph', 'time_series_causal_graph.py')
# file, methods, how self.get_minimal_graph() is resolved in that file
FILES = [('TSGenMinimal', ['get_minimal_graph', 'is_minimal_graph'], 'translated'),
         ('TSGenExtend', ['extend_graph'], 'api')]
CACHE_ATTRS = {'_is_minimal_graph': ('opt', ('bool',))}
EXCEPTIONS = {'AssertionError': 'EAssert', 'ValueError': 'EValue', 'KeyError': 'EKey', 'TypeError': 'EType',
              'IndexError': 'EIndex'}
MAX_OUTPUT_CHARS = 100000


class Unsupported(Exception):
    def __init__(self, node, msg):
        super().__init__(f'{getattr(node, "lineno", "?")}: {msg}')


# ----------------------------------------------------------------------------------------------------------------------
# kinds
GRAPH, NODE, EDGE, INT, BOOL, NAME, IDENT, META, VTYPE, ETYPE, NONE, UNKNOWN = (
    ('graph',), ('node',), ('edge',), ('int',), ('bool',), ('name',), ('ident',), ('meta',), ('vtype',), ('etype',),
    ('none',), ('unknown',))


def OPT(k): return ('opt', k)
def LIST(k): return ('list', k)


COQ_TYPES = {'graph': 'tsg', 'node': 'tnode', 'edge': 'pyedge', 'int': 'Z', 'bool': 'bool', 'name': 'name',
             'ident': 'key', 'meta': 'meta', 'vtype': 'vtype', 'etype': 'etype', 'none': 'unit'}


def coq_type(k):
    if k[0] in COQ_TYPES:
        return COQ_TYPES[k[0]]
    if k[0] == 'opt':
        return f'option ({coq_type(k[1])})'
    if k[0] == 'list':
        return f'list ({coq_type(k[1])})'
    return '_'


def is_mutable(k):
    return k[0] in ('graph', 'list')


def tuple_pat(vs):
    """vs: list of (coq name, kind)"""
    if not vs:
        return '(_ : unit)'
    if len(vs) == 1:
        return f'({vs[0][0]} : {coq_type(vs[0][1])})'
    return "'((" + ', '.join(v for v, _ in vs) + ') : ' + ' * '.join(f'({coq_type(k)})' for _, k in vs) + ')'


def tuple_val(vs):
    if not vs:
        return 'tt'
    if len(vs) == 1:
        return vs[0][0]
    return '(' + ', '.join(v for v, _ in vs) + ')'


class Var:
    def __init__(self, coq, kind, owned=False, param=False):
        self.coq, self.kind, self.owned, self.param = coq, kind, owned, param


class Ctx:
    """inj: ts_top / ts_in;  fall: text emitted where the block falls through;  loop: text of `continue` (None outside
    a loop) and of `break`"""
    def __init__(self, inj, fall, cont=None, brk=None):
        self.inj, self.fall, self.cont, self.brk = inj, fall, cont, brk

    def sub(self, **kw):
        c = Ctx(self.inj, self.fall, self.cont, self.brk)
        for k, v in kw.items():
            setattr(c, k, v)
        return c


def names_in(node):
    return [n.id for n in ast.walk(node) if isinstance(n, ast.Name)]


def is_self(e):
    return isinstance(e, ast.Name) and e.id == 'self'


def is_self_attr(e, attr=None):
    return isinstance(e, ast.Attribute) and is_self(e.value) and (attr is None or e.attr == attr)


def terminates(stmts):
    """True when control can never fall out of the end of the block"""
    if not stmts:
        return False
    s = stmts[-1]
    if isinstance(s, (ast.Return, ast.Raise, ast.Continue, ast.Break)):
        return True
    if isinstance(s, ast.If):
        return terminates(s.body) and terminates(s.orelse)
    return False


class Translator:
    def __init__(self, src_lines, minimal_mode):
        self.src_lines, self.minimal_mode = src_lines, minimal_mode
        self.outputs = []
        self.translated = set()
        self.tmp = 0
        self.ret_kind = None

    def fresh(self, base='tmp'):
        self.tmp += 1
        return f'{base}_{self.tmp}'

    def first_line(self, node):
        return self.src_lines[node.lineno - 1].strip().replace('(*', '( *').replace('*)', '* )')

    def comment(self, node, ind, note=''):
        return f'{ind}(* L{node.lineno}: {note}{self.first_line(node)} *)\n'

    def want(self, node, kind, expected):
        if kind != expected:
            raise Unsupported(node, f'expected a value of kind {expected[0]}, found {kind}')

    # ------------------------------------------------------------------------------------------------------------------
    # expressions: (coq term, kind, owned); H = list of hoisted (call text, bound name) or None where not allowed
    def hoist(self, node, H, call):
        if H is None:
            raise Unsupported(node, 'a call that can raise occurs where Python evaluates conditionally')
        t = self.fresh()
        H.append((call, t))
        return t

    def as_ident(self, node, term, kind):
        if kind == IDENT:
            return term
        if kind == NAME:
            return f'(ts_ident_of_name {term})'
        raise Unsupported(node, f'expected an identifier or a variable name, found {kind}')

    def kwargs(self, call, names, positional=False):
        """the keyword arguments of `call` must be exactly `names` (any order; positional allowed when requested)"""
        if any(isinstance(a, ast.Starred) for a in call.args) or any(k.arg is None for k in call.keywords):
            raise Unsupported(call, 'starred arguments')
        got = {}
        if call.args:
            if not positional or len(call.args) > len(names):
                raise Unsupported(call, 'positional arguments are not accepted for this call')
            for n, a in zip(names, call.args):
                got[n] = a
        for k in call.keywords:
            if k.arg in got or k.arg not in names:
                raise Unsupported(call, f'unexpected keyword argument {k.arg!r}')
            got[k.arg] = k.value
        if set(got) != set(names):
            raise Unsupported(call, f'this call must have exactly the arguments {names}')
        # evaluation order = source order
        order = sorted(got, key=lambda n: (got[n].lineno, got[n].col_offset))
        return got, order

    def graph_receiver(self, e, env):
        """a graph-valued receiver: self or a local graph name; returns (coq, is_self)"""
        if is_self(e):
            return 'v_self', True
        if isinstance(e, ast.Name) and e.id in env and env[e.id].kind == GRAPH:
            return env[e.id].coq, False
        return None, False

    def expr(self, e, env, H):
        t, k, _ = self.expr_o(e, env, H)
        return t, k

    def expr_o(self, e, env, H):
        if isinstance(e, ast.Name):
            if e.id == 'self':
                return 'v_self', GRAPH, False
            if e.id not in env:
                raise Unsupported(e, f'name {e.id!r} is not defined here (or not supported)')
            v = env[e.id]
            return v.coq, v.kind, False
        if isinstance(e, ast.Constant):
            if e.value is True:
                return 'true', BOOL, False
            if e.value is False:
                return 'false', BOOL, False
            if isinstance(e.value, int):
                return (str(e.value) if e.value >= 0 else f'({e.value})'), INT, False
            raise Unsupported(e, f'constant {e.value!r}')
        if isinstance(e, ast.Attribute):
            # the endpoint of an edge object this function owns (a private copy / a fresh edge) is owned as well
            owned = (e.attr in ('source', 'destination') and isinstance(e.value, ast.Name) and e.value.id in env
                     and env[e.value.id].kind == EDGE and env[e.value.id].owned)
            return self.attribute(e, env, H) + (owned,)
        if isinstance(e, ast.Call):
            return self.call(e, env, H)
        if isinstance(e, ast.Subscript):
            if not isinstance(e.ctx, ast.Load):
                raise Unsupported(e, 'subscript store in an expression')
            if not (isinstance(e.slice, ast.Constant) and e.slice.value == 0 and e.slice.value is not False):
                raise Unsupported(e, 'only l[0] is supported')
            l, lk = self.expr(e.value, env, H)
            if lk[0] != 'list':
                raise Unsupported(e, 'subscript of something that is not a list')
            return self.hoist(e, H, f'ts_list_getitem0 {l}'), lk[1], False
        if isinstance(e, ast.Compare):
            return self.compare(e, env, H) + (False,)
        if isinstance(e, ast.BoolOp):
            op = '&&' if isinstance(e.op, ast.And) else '||'
            parts = []
            for i, v in enumerate(e.values):
                c, k = self.expr(v, env, H if i == 0 else None)
                self.want(v, k, BOOL)
                parts.append(c)
            return '(' + f' {op} '.join(parts) + ')', BOOL, False
        if isinstance(e, ast.UnaryOp) and isinstance(e.op, ast.Not):
            c, k = self.expr(e.operand, env, H)
            self.want(e, k, BOOL)
            return f'(negb {c})', BOOL, False
        if isinstance(e, ast.UnaryOp) and isinstance(e.op, ast.USub):
            c, k = self.expr(e.operand, env, H)
            self.want(e, k, INT)
            return f'(- {c})', INT, False
        if isinstance(e, ast.BinOp) and isinstance(e.op, (ast.Add, ast.Sub)):
            a, ka = self.expr(e.left, env, H)
            b, kb = self.expr(e.right, env, H)
            self.want(e.left, ka, INT)
            self.want(e.right, kb, INT)
            return f'({a} {"+" if isinstance(e.op, ast.Add) else "-"} {b})', INT, False
        if isinstance(e, ast.List) and not e.elts:
            return 'ts_list_empty', LIST(UNKNOWN), True
        raise Unsupported(e, f'unsupported expression {type(e).__name__}')

    def attribute(self, e, env, H):
        a = e.attr
        g, _ = self.graph_receiver(e.value, env)
        if g is not None:
            if is_self(e.value) and a in CACHE_ATTRS:
                if '$' + a not in env:
                    raise Unsupported(e, f'cache attribute {a} is not available here')
                v = env['$' + a]
                return v.coq, v.kind
            if a == 'meta':
                return f'(ts_graph_meta {g})', META
            if a == 'variables':
                return f'(ts_variables {g})', LIST(NAME)
            if a == 'max_backward_lag':
                return f'(ts_max_backward_lag {g})', OPT(INT)
            raise Unsupported(e, f'unsupported graph attribute .{a}')
        v, k = self.expr(e.value, env, H)
        if k == NODE:
            table = {'variable_name': ('tv', NAME), 'time_lag': ('tl', INT), 'identifier': ('nkey', IDENT),
                     'meta': ('tm', META), 'variable_type': ('tvt', VTYPE)}
        elif k == EDGE:
            table = {'source': ('pe_src', NODE), 'destination': ('pe_dst', NODE), 'edge_type': ('pe_ty', ETYPE),
                     'meta': ('pe_meta', META)}
        else:
            raise Unsupported(e, f'attribute .{a} of a value of kind {k[0]}')
        if a not in table:
            raise Unsupported(e, f'unsupported attribute .{a} of a {k[0]} object')
        return f'({table[a][0]} {v})', table[a][1]

    def compare(self, e, env, H):
        if len(e.ops) != 1:
            raise Unsupported(e, 'chained comparison')
        op, l, r = e.ops[0], e.left, e.comparators[0]
        if isinstance(op, (ast.Is, ast.IsNot)):
            if not (isinstance(r, ast.Constant) and r.value is None):
                raise Unsupported(e, '`is` is supported against None only')
            _, k = self.expr(l, env, H)
            if k[0] == 'opt':
                raise Unsupported(e, 'a None test of an Optional value must be the whole test of an if / assert')
            if k in (UNKNOWN, NONE):
                raise Unsupported(e, 'None test of a value of unknown kind')
            return ('false' if isinstance(op, ast.Is) else 'true'), BOOL
        a, ka = self.expr(l, env, H)
        b, kb = self.expr(r, env, H)
        if isinstance(op, (ast.In, ast.NotIn)):
            if ka != NAME or kb != LIST(NAME):
                raise Unsupported(e, 'membership is supported for a variable name in a list of variable names only')
            c = f'(mem {a} {b})'
            return (c if isinstance(op, ast.In) else f'(negb {c})'), BOOL
        if ka == GRAPH and kb == GRAPH and isinstance(op, ast.Eq):
            return f'(ts_graph_eq {a} {b})', BOOL
        if ka == INT and kb == INT:
            if isinstance(op, ast.Eq):
                return f'({a} =? {b})', BOOL
            if isinstance(op, ast.Lt):
                return f'({a} <? {b})', BOOL
            if isinstance(op, ast.Gt):
                return f'({b} <? {a})', BOOL
            if isinstance(op, ast.LtE):
                return f'({a} <=? {b})', BOOL
            if isinstance(op, ast.GtE):
                return f'({b} <=? {a})', BOOL
        raise Unsupported(e, f'unsupported comparison {type(op).__name__} between kinds {ka[0]} and {kb[0]}')

    def call(self, e, env, H):
        f = e.func
        # ---- plain functions
        if isinstance(f, ast.Name):
            if f.id in env:
                raise Unsupported(e, 'call of a local value')
            if f.id == 'deepcopy':
                got, _ = self.kwargs(e, ['x'], positional=True)
                t, k = self.expr(got['x'], env, H)
                if is_mutable(k):
                    raise Unsupported(e, 'deepcopy of a graph / list')
                return f'(ts_deepcopy {t})', k, False
            if f.id == 'isinstance':
                if len(e.args) != 2 or e.keywords or not isinstance(e.args[1], ast.Name):
                    raise Unsupported(e, 'isinstance(x, <class name>) only')
                _, k = self.expr(e.args[0], env, H)
                wantk = {'TimeSeriesNode': NODE, 'int': INT, 'TimeSeriesCausalGraph': GRAPH, 'TimeSeriesEdge': EDGE,
                         'bool': BOOL}.get(e.args[1].id)
                if wantk is None or k != wantk:
                    raise Unsupported(e, f'isinstance: the value has kind {k[0]}, which is not known to be a {e.args[1].id}')
                return 'true', BOOL, False
            if f.id in ('int', 'abs'):
                got, _ = self.kwargs(e, ['x'], positional=True)
                t, k = self.expr(got['x'], env, H)
                self.want(e, k, INT)
                return (t if f.id == 'int' else f'(Z.abs {t})'), INT, False
            if f.id == 'len':
                got, _ = self.kwargs(e, ['x'], positional=True)
                t, k = self.expr(got['x'], env, H)
                if k[0] != 'list':
                    raise Unsupported(e, 'len of something that is not a list')
                return f'(Z.of_nat (length {t}))', INT, False
            if f.id == 'get_name_with_lag':
                if len(e.args) != 2 or e.keywords:
                    raise Unsupported(e, 'get_name_with_lag(identifier, lag) with two positional arguments only')
                i, ki = self.expr(e.args[0], env, H)
                k_, kk = self.expr(e.args[1], env, H)
                self.want(e.args[1], kk, INT)
                return f'(ts_get_name_with_lag {self.as_ident(e.args[0], i, ki)} {k_})', IDENT, False
            raise Unsupported(e, f'unsupported function {f.id}')
        if not isinstance(f, ast.Attribute):
            raise Unsupported(e, 'unsupported call')
        m = f.attr
        # ---- self.__class__(meta=..), self._NodeCls(..), self._EdgeCls(..), self._EdgeCls.from_dict(x.to_dict(include_meta=True))
        if is_self_attr(f, '__class__'):
            got, _ = self.kwargs(e, ['meta'])
            t, k = self.expr(got['meta'], env, H)
            self.want(e, k, META)
            return f'(ts_new_graph {t})', GRAPH, True
        if is_self_attr(f, '_NodeCls'):
            got, order = self.kwargs(e, ['identifier', 'meta', 'variable_type'])
            vals = {n: self.expr(got[n], env, H) for n in order}
            self.want(got['meta'], vals['meta'][1], META)
            self.want(got['variable_type'], vals['variable_type'][1], VTYPE)
            i = self.as_ident(got['identifier'], *vals['identifier'])
            return f'(ts_new_node {i} {vals["meta"][0]} {vals["variable_type"][0]})', NODE, True
        if is_self_attr(f, '_EdgeCls'):
            got, order = self.kwargs(e, ['source', 'destination', 'edge_type', 'meta'])
            vals = {n: self.expr(got[n], env, H) for n in order}
            for n, k in (('source', NODE), ('destination', NODE), ('edge_type', ETYPE), ('meta', META)):
                self.want(got[n], vals[n][1], k)
            return ('(ts_new_edge ' + ' '.join(vals[n][0] for n in ('source', 'destination', 'edge_type', 'meta')) + ')',
                    EDGE, True)
        if m == 'from_dict' and is_self_attr(f.value, '_EdgeCls'):
            if len(e.args) != 1 or e.keywords:
                raise Unsupported(e, 'from_dict with one positional argument only')
            a = e.args[0]
            if not (isinstance(a, ast.Call) and isinstance(a.func, ast.Attribute) and a.func.attr == 'to_dict' and not a.args
                    and len(a.keywords) == 1 and a.keywords[0].arg == 'include_meta'
                    and isinstance(a.keywords[0].value, ast.Constant) and a.keywords[0].value.value is True):
                raise Unsupported(e, 'only self._EdgeCls.from_dict(<edge>.to_dict(include_meta=True)) is supported')
            t, k = self.expr(a.func.value, env, H)
            self.want(a, k, EDGE)
            return f'(ts_edge_copy {t})', EDGE, True
        if is_self_attr(f, '_get_lagged_node'):
            got, order = self.kwargs(e, ['node', 'lag'], positional=True)
            vals = {n: self.expr(got[n], env, H) for n in order}
            self.want(got['node'], vals['node'][1], NODE)
            self.want(got['lag'], vals['lag'][1], INT)
            return f'(ts_get_lagged_node {vals["node"][0]} {vals["lag"][0]})', NODE, True
        # ---- edge object methods
        if m == 'get_edge_type' and not e.args and not e.keywords:
            t, k = self.expr(f.value, env, H)
            self.want(f.value, k, EDGE)
            return f'(pe_ty {t})', ETYPE, False
        # ---- graph methods
        g, on_self = self.graph_receiver(f.value, env)
        if g is None:
            raise Unsupported(e, f'unsupported method call .{m}(..)')
        if m in ('get_edges', 'get_nodes', 'is_empty', 'copy', 'get_minimal_graph'):
            if e.args or e.keywords:
                raise Unsupported(e, f'.{m}() takes no arguments here')
            if m == 'get_edges':
                return self.hoist(e, H, f'ts_get_edges {g}'), LIST(EDGE), False
            if m == 'get_nodes':
                return f'(ts_get_nodes {g})', LIST(NODE), False
            if m == 'is_empty':
                return f'(ts_is_empty {g})', BOOL, False
            if m == 'copy':
                return f'(ts_copy {g})', GRAPH, True
            if not on_self:
                raise Unsupported(e, 'get_minimal_graph() is supported on self only')
            if self.minimal_mode == 'translated':
                if 'get_minimal_graph' not in self.translated:
                    raise Unsupported(e, 'get_minimal_graph is called before its translation')
                return self.hoist(e, H, 'gen_get_minimal_graph v_self'), GRAPH, True
            return self.hoist(e, H, 'ts_get_minimal_graph v_self'), GRAPH, True
        if m in ('edge_exists', 'node_exists', 'get_node'):
            n = 2 if m == 'edge_exists' else 1
            if len(e.args) != n or e.keywords:
                raise Unsupported(e, f'.{m} takes {n} positional argument(s) here')
            ids = []
            for a in e.args:
                t, k = self.expr(a, env, H)
                ids.append(self.as_ident(a, t, k))
            if m == 'get_node':
                return self.hoist(e, H, f'ts_get_node {g} {ids[0]}'), NODE, False
            return f'(ts_{m} {g} {" ".join(ids)})', BOOL, False
        if m == 'get_nodes_for_variable_name':
            got, _ = self.kwargs(e, ['variable_name'], positional=True)
            t, k = self.expr(got['variable_name'], env, H)
            self.want(e, k, NAME)
            return f'(ts_get_nodes_for_variable_name {g} {t})', LIST(NODE), False
        raise Unsupported(e, f'unsupported graph method .{m}(..)')

    # ------------------------------------------------------------------------------------------------------------------
    # statements
    def effect_free(self, e, env):
        """arguments of a dropped logger call"""
        for n in ast.walk(e):
            if isinstance(n, ast.Name):
                if n.id not in env and n.id not in ('list', 'set', 'len', 'str', 'sorted'):
                    raise Unsupported(n, f'name {n.id!r} in a logger argument is not defined')
            elif isinstance(n, ast.Call):
                if not (isinstance(n.func, ast.Name) and n.func.id in ('list', 'set', 'len', 'str', 'sorted')) or n.keywords:
                    raise Unsupported(n, 'call in a logger argument')
            elif not isinstance(n, (ast.Constant, ast.JoinedStr, ast.FormattedValue, ast.Load, ast.Attribute)):
                raise Unsupported(n, f'{type(n).__name__} in a logger argument')
            if isinstance(n, ast.Attribute) and not isinstance(n.value, ast.Name):
                raise Unsupported(n, 'attribute chain in a logger argument')

    def message(self, e, env):
        if e is None or isinstance(e, ast.Constant):
            return
        if isinstance(e, ast.JoinedStr):
            for v in e.values:
                if isinstance(v, ast.FormattedValue):
                    if not isinstance(v.value, ast.Name) or (v.value.id not in env):
                        raise Unsupported(e, 'f-string message over something that is not a defined name')
            return
        raise Unsupported(e, 'message that is not a constant or an f-string')

    def assigned(self, stmts, env):
        """names of env that the statements assign or mutate, in order of first occurrence"""
        out = []

        def add(n):
            if n in env and n not in out:
                out.append(n)
        for s in stmts:
            for n in ast.walk(s):
                if isinstance(n, (ast.Assign, ast.AnnAssign)):
                    for t in (n.targets if isinstance(n, ast.Assign) else [n.target]):
                        if isinstance(t, ast.Name):
                            add(t.id)
                        elif isinstance(t, ast.Subscript):
                            for q in names_in(t.value):
                                add(q)
                        elif is_self_attr(t) and t.attr in CACHE_ATTRS:
                            add('$' + t.attr)
                elif isinstance(n, ast.For) and isinstance(n.target, ast.Name):
                    add(n.target.id)
                elif isinstance(n, ast.Call) and isinstance(n.func, ast.Attribute) and isinstance(n.func.value, ast.Name) \
                        and n.func.attr in ('add_edge', 'add_node', 'append'):
                    add(n.func.value.id)
        return out

    def binds(self, H, ctx, ind):
        return ''.join(f'{ind}ts_bind {ctx.inj} ({c}) (fun {t} =>\n' for c, t in H), ')' * len(H)

    def none_test(self, test, env):
        """(variable, positive?) when `test` is `<opt> is [not] None`, else None"""
        if isinstance(test, ast.Compare) and len(test.ops) == 1 and isinstance(test.ops[0], (ast.Is, ast.IsNot)) \
                and isinstance(test.comparators[0], ast.Constant) and test.comparators[0].value is None:
            l = test.left
            key = None
            if isinstance(l, ast.Name) and l.id in env:
                key = l.id
            elif is_self_attr(l) and l.attr in CACHE_ATTRS and '$' + l.attr in env:
                key = '$' + l.attr
            if key is not None and env[key].kind[0] == 'opt':
                return key, isinstance(test.ops[0], ast.IsNot)
        return None

    def narrowed(self, env, key):
        v = env[key]
        env2 = dict(env)
        env2[key] = Var(v.coq + '_some', v.kind[1], param=True)
        return env2, v.coq + '_some'

    def block(self, stmts, env, ctx, ind):
        if not stmts:
            if ctx.fall is None:
                raise Unsupported(None, 'internal: fall-through where none is possible')
            return f'{ind}{ctx.fall}'
        s, rest = stmts[0], stmts[1:]
        env = dict(env)
        if isinstance(s, ast.Pass) or (isinstance(s, ast.Expr) and isinstance(s.value, ast.Constant)
                                       and isinstance(s.value.value, str)):
            return self.block(rest, env, ctx, ind)
        if isinstance(s, ast.Expr) and isinstance(s.value, ast.Call):
            return self.call_stmt(s, rest, env, ctx, ind)
        if isinstance(s, ast.Assert):
            return self.assert_stmt(s, rest, env, ctx, ind)
        if isinstance(s, (ast.Assign, ast.AnnAssign)):
            return self.assign(s, rest, env, ctx, ind)
        if isinstance(s, ast.If):
            return self.if_stmt(s, rest, env, ctx, ind)
        if isinstance(s, ast.For):
            return self.for_stmt(s, rest, env, ctx, ind)
        if isinstance(s, ast.Return):
            if rest:
                raise Unsupported(rest[0], 'unreachable statement')
            if s.value is None:
                raise Unsupported(s, 'bare return')
            H = []
            t, k = self.expr(s.value, env, H)
            if self.ret_kind is not None and self.ret_kind != k:
                raise Unsupported(s, f'return kinds differ: {self.ret_kind} / {k}')
            self.ret_kind = k
            pre, post = self.binds(H, ctx, ind)
            return self.comment(s, ind) + pre + f'{ind}{ctx.inj} (Ok {t})' + post
        if isinstance(s, ast.Raise):
            if rest:
                raise Unsupported(rest[0], 'unreachable statement')
            x = s.exc
            if s.cause is not None or not (isinstance(x, ast.Call) and isinstance(x.func, ast.Name) and x.func.id in EXCEPTIONS
                                           and len(x.args) <= 1 and not x.keywords):
                raise Unsupported(s, 'unsupported raise')
            self.message(x.args[0] if x.args else None, env)
            return self.comment(s, ind) + f'{ind}{ctx.inj} (Err {EXCEPTIONS[x.func.id]})'
        if isinstance(s, (ast.Continue, ast.Break)):
            if rest:
                raise Unsupported(rest[0], 'unreachable statement')
            txt = ctx.cont if isinstance(s, ast.Continue) else ctx.brk
            if txt is None:
                raise Unsupported(s, 'continue / break outside a loop')
            return self.comment(s, ind) + f'{ind}{txt}'
        raise Unsupported(s, f'unsupported statement {type(s).__name__}')

    def call_stmt(self, s, rest, env, ctx, ind):
        c = s.value
        f = c.func
        if isinstance(f, ast.Attribute) and isinstance(f.value, ast.Name) and f.value.id == 'logger' and 'logger' not in env:
            if f.attr not in ('debug', 'info', 'warning', 'error', 'critical') or c.keywords:
                raise Unsupported(s, 'unsupported logger call')
            for a in c.args:
                self.effect_free(a, env)
            return self.comment(s, ind, '[dropped] ') + self.block(rest, env, ctx, ind)
        if not (isinstance(f, ast.Attribute) and isinstance(f.value, ast.Name) and f.value.id in env):
            raise Unsupported(s, 'an expression statement must be a logger call or a mutation of a local object')
        r = env[f.value.id]
        H = []
        if f.attr == 'append' and r.kind[0] == 'list':
            if not r.owned:
                raise Unsupported(s, 'append to a list this function does not own')
            if len(c.args) != 1 or c.keywords:
                raise Unsupported(s, 'append takes one argument')
            t, k = self.expr(c.args[0], env, H)
            if is_mutable(k) or k[0] == 'opt':
                raise Unsupported(s, 'a mutable / optional value stored in a list')
            if r.kind[1] != UNKNOWN and r.kind[1] != k:
                raise Unsupported(s, 'list elements of different kinds')
            env[f.value.id] = Var(r.coq, LIST(k), owned=True)
            pre, post = self.binds(H, ctx, ind)
            return (self.comment(s, ind) + pre + f'{ind}let {r.coq} := ts_list_append {r.coq} {t} in\n'
                    + self.block(rest, env, ctx, ind) + post)
        if r.kind != GRAPH or f.attr not in ('add_edge', 'add_node'):
            raise Unsupported(s, f'unsupported mutation .{f.attr}(..)')
        if not r.owned:
            raise Unsupported(s, 'mutation of a graph this function does not own')
        if f.attr == 'add_node':
            got, _ = self.kwargs(c, ['node'])
            t, k = self.expr(got['node'], env, H)
            self.want(s, k, NODE)
            call = f'ts_add_node {r.coq} {t}'
        else:
            names = [k.arg for k in c.keywords]
            if c.args:
                raise Unsupported(s, 'add_edge with positional arguments')
            if 'validate' not in names:
                raise Unsupported(s, 'add_edge without validate=False (the validating call is not modelled)')
            got, order = self.kwargs(c, ['edge', 'validate'] if 'edge' in names else
                                     ['source', 'destination', 'edge_type', 'meta', 'validate'])
            v = got['validate']
            if not (isinstance(v, ast.Constant) and v.value is False):
                raise Unsupported(s, 'add_edge must be called with validate=False')
            vals = {n: self.expr(got[n], env, H) for n in order if n != 'validate'}
            if 'edge' in got:
                self.want(got['edge'], vals['edge'][1], EDGE)
                call = f'ts_add_edge_obj {r.coq} {vals["edge"][0]}'
            else:
                for n, k in (('source', NODE), ('destination', NODE), ('edge_type', ETYPE), ('meta', META)):
                    self.want(got[n], vals[n][1], k)
                call = f'ts_add_edge {r.coq} ' + ' '.join(vals[n][0] for n in ('source', 'destination', 'edge_type', 'meta'))
        pre, post = self.binds(H, ctx, ind)
        return (self.comment(s, ind) + pre + f'{ind}ts_bind {ctx.inj} ({call}) (fun {r.coq} =>\n'
                + self.block(rest, env, ctx, ind) + ')' + post)

    def assert_stmt(self, s, rest, env, ctx, ind):
        self.message(s.msg, env)
        nt = self.none_test(s.test, env)
        if nt is not None:
            key, positive = nt
            if not positive:
                raise Unsupported(s, 'assert <optional> is None')
            env2, some = self.narrowed(env, key)
            return (self.comment(s, ind) + f'{ind}match {env[key].coq} with\n{ind}| Some {some} =>\n'
                    + self.block(rest, env2, ctx, ind + '  ') + f'\n{ind}| None => {ctx.inj} (Err EAssert)\n{ind}end')
        H = []
        c, k = self.expr(s.test, env, H)
        self.want(s, k, BOOL)
        pre, post = self.binds(H, ctx, ind)
        return (self.comment(s, ind) + pre + f'{ind}if {c}\n{ind}then (\n' + self.block(rest, env, ctx, ind + '  ')
                + f')\n{ind}else {ctx.inj} (Err EAssert)' + post)

    def assign(self, s, rest, env, ctx, ind):
        if isinstance(s, ast.Assign):
            if len(s.targets) != 1:
                raise Unsupported(s, 'chained assignment')
            target, value = s.targets[0], s.value
        else:
            target, value = s.target, s.value
            if value is None:
                return self.block(rest, env, ctx, ind)
        H = []
        # n.meta[TIME_LAG] = k
        if isinstance(target, ast.Subscript):
            tv = target.value
            if not (isinstance(tv, ast.Attribute) and tv.attr == 'meta' and isinstance(tv.value, ast.Name)
                    and tv.value.id in env and env[tv.value.id].kind == NODE and not env[tv.value.id].param
                    and env[tv.value.id].owned
                    and isinstance(target.slice, ast.Name) and target.slice.id == 'TIME_LAG' and 'TIME_LAG' not in env):
                raise Unsupported(s, 'only <node>.meta[TIME_LAG] = <int> is supported as a subscript assignment, on a local node object '
                                     'that is a private copy (endpoint of a copied / fresh edge, fresh node)')
            t, k = self.expr(value, env, H)
            self.want(s, k, INT)
            v = env[tv.value.id]
            pre, post = self.binds(H, ctx, ind)
            return (self.comment(s, ind) + pre + f'{ind}let {v.coq} := ts_node_set_time_lag_tag {v.coq} {t} in\n'
                    + self.block(rest, env, ctx, ind) + post)
        # self._is_minimal_graph = e
        if is_self_attr(target) and target.attr in CACHE_ATTRS:
            key = '$' + target.attr
            if key not in env:
                raise Unsupported(s, 'cache attribute not available')
            t, k = self.expr(value, env, H)
            if OPT(k) != CACHE_ATTRS[target.attr]:
                raise Unsupported(s, f'cache attribute assigned a value of kind {k[0]}')
            coq = 'v_self_' + target.attr
            env[key] = Var(coq, OPT(k))
            pre, post = self.binds(H, ctx, ind)
            return (self.comment(s, ind) + pre + f'{ind}let {coq} := Some {t} in\n' + self.block(rest, env, ctx, ind) + post)
        if not isinstance(target, ast.Name):
            raise Unsupported(s, 'unsupported assignment target')
        if target.id == 'self' or (target.id in env and env[target.id].param):
            raise Unsupported(s, 'assignment to a parameter')
        if isinstance(value, ast.Name) and value.id in env and is_mutable(env[value.id].kind) or is_self(value):
            raise Unsupported(s, 'aliasing of a graph / list')
        t, k, owned = self.expr_o(value, env, H)
        if k == NONE:
            raise Unsupported(s, 'assignment of None')
        coq = 'v_' + target.id
        env[target.id] = Var(coq, k, owned=owned)
        pre, post = self.binds(H, ctx, ind)
        return self.comment(s, ind) + pre + f'{ind}let {coq} := {t} in\n' + self.block(rest, env, ctx, ind) + post

    def if_stmt(self, s, rest, env, ctx, ind):
        t_body, t_else = terminates(s.body), terminates(s.orelse)
        body, orelse = list(s.body), list(s.orelse)
        pre_join = ''
        bctx = ctx
        if rest:
            if t_body and t_else:
                raise Unsupported(rest[0], 'unreachable statement')
            if t_body:
                orelse, rest = orelse + rest, []
            elif t_else:
                body, rest = body + rest, []
            else:
                st = self.assigned(s.body + s.orelse, env)
                vs = [(env[n].coq, env[n].kind) for n in st]
                for n in st:
                    if env[n].param and not n.startswith('$'):
                        raise Unsupported(s, f'assignment to the parameter {n}')
                j = self.fresh('join')
                # kinds of the state variables must survive the branches: checked when the branches are translated (below)
                pre_join = (f'{ind}let {j} := fun {tuple_pat(vs)} =>\n' + self.block(rest, env, ctx, ind + '    ')
                            + f' in\n')
                bctx = ctx.sub(fall=f'{j} {tuple_val(vs)}')
        nt = self.none_test(s.test, env)
        if nt is not None:
            key, positive = nt
            env2, some = self.narrowed(env, key)
            b_some = self.block(body if positive else orelse, env2, bctx, ind + '  ')
            b_none = self.block(orelse if positive else body, env, bctx, ind + '  ')
            return (self.comment(s, ind) + pre_join + f'{ind}match {env[key].coq} with\n{ind}| Some {some} =>\n' + b_some
                    + f'\n{ind}| None =>\n' + b_none + f'\n{ind}end')
        H = []
        c, k = self.expr(s.test, env, H)
        self.want(s, k, BOOL)
        pre, post = self.binds(H, bctx, ind)
        return (self.comment(s, ind) + pre_join + pre + f'{ind}if {c}\n{ind}then (\n' + self.block(body, env, bctx, ind + '  ')
                + f')\n{ind}else (\n' + self.block(orelse, env, bctx, ind + '  ') + ')' + post)

    def for_stmt(self, s, rest, env, ctx, ind):
        if s.orelse:
            raise Unsupported(s, 'for .. else')
        if not isinstance(s.target, ast.Name) or s.target.id in env or s.target.id == 'self':
            raise Unsupported(s, 'the loop variable must be a fresh plain name')
        st = self.assigned(s.body, env)
        for n in st:
            if env[n].param and not n.startswith('$'):
                raise Unsupported(s, f'assignment to the parameter {n}')
        H = []
        it = s.iter
        if isinstance(it, ast.Call) and isinstance(it.func, ast.Name) and it.func.id == 'range' and 'range' not in env:
            if len(it.args) != 2 or it.keywords:
                raise Unsupported(s, 'range(a, b) with two arguments only')
            a, ka = self.expr(it.args[0], env, H)
            b, kb = self.expr(it.args[1], env, H)
            self.want(it, ka, INT)
            self.want(it, kb, INT)
            xs, ek = f'(ts_range {a} {b})', INT
        else:
            xs, k = self.expr(it, env, H)
            if k[0] != 'list' or k[1] == UNKNOWN:
                raise Unsupported(s, 'the iterable must be a list of known element kind')
            ek = k[1]
        for n in names_in(it):
            if n in st:
                raise Unsupported(s, 'the iterable mentions a variable that the loop body changes')
        vs = [(env[n].coq, env[n].kind) for n in st]
        tv = 'v_' + s.target.id
        benv = dict(env)
        benv[s.target.id] = Var(tv, ek)
        bctx = Ctx('ts_in', f'TCont {tuple_val(vs)}', cont=f'TCont {tuple_val(vs)}', brk=f'TBrk {tuple_val(vs)}')
        body = self.block(list(s.body), benv, bctx, ind + '    ')
        # the kinds of the state must be the same after the loop body: re-derive by a dry run of the assignments
        pre, post = self.binds(H, ctx, ind)
        return (self.comment(s, ind) + pre + f'{ind}ts_for {ctx.inj} {xs} {tuple_val(vs)} (fun ({tv} : {coq_type(ek)}) {tuple_pat(vs)} =>\n'
                + body + ')\n' + f'{ind}(fun {tuple_pat(vs)} =>\n' + self.block(rest, env, ctx, ind) + ')' + post)

    # ------------------------------------------------------------------------------------------------------------------
    def method(self, node):
        if node.decorator_list:
            raise Unsupported(node, 'decorated method')
        a = node.args
        if a.vararg or a.kwarg or a.kwonlyargs or a.posonlyargs or not a.args or a.args[0].arg != 'self':
            raise Unsupported(node, 'unsupported parameter list')
        for n in ast.walk(node):
            if isinstance(n, (ast.FunctionDef, ast.AsyncFunctionDef, ast.Lambda, ast.ClassDef)) and n is not node:
                raise Unsupported(n, 'nested function / class')
            if isinstance(n, (ast.Global, ast.Nonlocal, ast.Delete, ast.While, ast.Try, ast.With, ast.AugAssign, ast.Yield,
                              ast.YieldFrom, ast.Await, ast.ListComp, ast.SetComp, ast.DictComp, ast.GeneratorExp,
                              ast.NamedExpr, ast.Starred, ast.IfExp, ast.Import, ast.ImportFrom)):
                raise Unsupported(n, f'unsupported construct {type(n).__name__}')
        env, sig = {}, ''
        if len(a.defaults) not in (0, len(a.args) - 1):
            raise Unsupported(node, 'either every parameter or none must have a default value')
        defaults = []
        for d in a.defaults:
            if isinstance(d, ast.Constant) and d.value is None:
                defaults.append('None')
            elif isinstance(d, ast.Constant) and d.value is True:
                defaults.append('true')
            elif isinstance(d, ast.Constant) and d.value is False:
                defaults.append('false')
            elif isinstance(d, ast.Constant) and isinstance(d.value, int):
                defaults.append(f'({d.value})')
            else:
                raise Unsupported(d, 'unsupported default value')
        for p in a.args[1:]:
            ann = p.annotation
            if isinstance(ann, ast.Name) and ann.id == 'bool':
                k = BOOL
            elif isinstance(ann, ast.Name) and ann.id == 'int':
                k = INT
            elif (isinstance(ann, ast.Subscript) and isinstance(ann.value, ast.Name) and ann.value.id == 'Optional'
                  and isinstance(ann.slice, ast.Name) and ann.slice.id == 'int'):
                k = OPT(INT)
            else:
                raise Unsupported(p, f'unsupported annotation of parameter {p.arg}')
            if defaults:
                d = defaults[len(env)]
                if (k[0] == 'opt') != (d == 'None') or (k == BOOL) != (d in ('true', 'false')):
                    raise Unsupported(p, f'default value of {p.arg} does not fit its annotation')
                if k == OPT(INT):
                    d = '(@None Z)'
                defaults[len(env)] = d
            env[p.arg] = Var('v_' + p.arg, k, param=True)
            sig += f' (v_{p.arg} : {coq_type(k)})'
        for n in ast.walk(node):
            if is_self_attr(n) and n.attr in CACHE_ATTRS and '$' + n.attr not in env:
                env['$' + n.attr] = Var('v_self_' + n.attr, CACHE_ATTRS[n.attr], param=True)
                sig += f' (v_self_{n.attr} : {coq_type(CACHE_ATTRS[n.attr])})'
        for forbidden in ('logger', 'deepcopy', 'isinstance', 'int', 'abs', 'len', 'range', 'get_name_with_lag', 'TIME_LAG'):
            for n in ast.walk(node):
                if isinstance(n, (ast.Assign, ast.AnnAssign, ast.For)):
                    ts = n.targets if isinstance(n, ast.Assign) else [n.target]
                    if any(isinstance(t, ast.Name) and t.id == forbidden for t in ts):
                        raise Unsupported(n, f'local rebinding of {forbidden}')
            if forbidden in env:
                raise Unsupported(node, f'parameter named {forbidden}')
        self.ret_kind = None
        if not terminates(node.body):
            raise Unsupported(node, 'the method can fall off its end (implicit return None)')
        body = self.block(list(node.body), env, Ctx('ts_top', None), '  ')
        if self.ret_kind is None:
            raise Unsupported(node, 'no return')
        end = getattr(node, 'end_lineno', node.lineno)
        doc = f'(** [{CLASS}.{node.name}], lines {node.lineno}-{end} of time_series_causal_graph.py. *)'
        text = f'{doc}\nDefinition gen_{node.name} (v_self : tsg){sig} : res ({coq_type(self.ret_kind)}) :=\n{body}.'
        if defaults:
            text += (f'\n\n(** the default values of the parameters of [{node.name}] ({", ".join(p.arg for p in a.args[1:])}) *)\n'
                     f'Definition gen_{node.name}_defaults := ({", ".join(defaults)}).')
        self.outputs.append(text)
        self.translated.add(node.name)


HEADER = '''(** %(file)s.v -- GENERATED by /verif/tools/translate_ts_extend.py from
    cai_causal_graph/time_series_causal_graph.py, class TimeSeriesCausalGraph, methods:
      %(targets)s.
    DO NOT EDIT: the file is regenerated on every verification run.  One Gallina function per Python method, statement
    by statement (the comments quote the first line of each Python statement); the runtime is PyRtTSb.v, whose header
    documents the mapping.  [v_self] is the graph ([tsg]); the outcome is the model's [res] ([Ok v] = returned v,
    [Err e] = raised an exception of class e). *)
From CG Require Import Base Dec Digraph TSGraph PyRtTSb.
Local Open Scope Z_scope.
'''

STUB = '''(** %(file)s.v -- NOT GENERATED: /verif/tools/translate_ts_extend.py refused the source.
    %(why)s
    This file deliberately does not compile. *)
Definition translator_failed : False := I.
'''


def find_class(src, path):
    tree = ast.parse(src, filename=path)
    classes = [n for n in tree.body if isinstance(n, ast.ClassDef) and n.name == CLASS]
    if len(classes) != 1:
        raise Unsupported(tree.body[0] if tree.body else None, f'expected exactly one class {CLASS} at module level')
    return classes[0]


def translate_group(cls, src, fname, targets, minimal_mode):
    tr = Translator(src.splitlines(), minimal_mode)
    for name in targets:
        defs = [n for n in cls.body if isinstance(n, (ast.FunctionDef, ast.AsyncFunctionDef)) and n.name == name]
        if len(defs) != 1 or not isinstance(defs[0], ast.FunctionDef):
            raise Unsupported(cls, f'expected exactly one plain method {name} in class {CLASS}')
        for n in cls.body:
            if isinstance(n, (ast.Assign, ast.AnnAssign)) and name in names_in(n):
                raise Unsupported(n, f'class-level assignment mentioning {name}')
        tr.method(defs[0])
    text = HEADER % {'file': fname, 'targets': ', '.join(targets)} + '\n' + '\n\n'.join(tr.outputs) + '\n'
    if len(text) > MAX_OUTPUT_CHARS:
        raise Unsupported(cls, 'the generated text is too large')
    return text


def clean(msg):
    return msg.replace('*)', '* )').replace('(*', '( *')


def write_if_changed(out, text):
    if os.path.exists(out):
        with open(out, 'r', encoding='utf-8') as fh:
            if fh.read() == text:
                return
    tmp = out + '.tmp'
    with open(tmp, 'w', encoding='utf-8') as fh:
        fh.write(text)
    os.replace(tmp, out)


def main(argv):
    if len(argv) > 3:
        sys.stderr.write('usage: translate_ts_extend.py [<repo_root> [<output_dir>]]\n')
        return 2
    root = argv[1] if len(argv) > 1 else os.environ.get('VERIF_REPO', '/repo')
    here = os.path.dirname(os.path.abspath(__file__))
    outdir = argv[2] if len(argv) > 2 else os.path.join(os.path.dirname(here), 'coq', 'theories')
    if not os.path.isdir(outdir):
        sys.stderr.write(f'translate_ts_extend: FAIL: {outdir} is not a directory\n')
        return 2
    path = os.path.join(root, SOURCE)
    status, cls, src, module_failure = 0, None, None, None
    try:
        with open(path, 'r', encoding='utf-8') as fh:
            src = fh.read()
        cls = find_class(src, path)
    except Unsupported as ex:
        module_failure = f'{path}:{ex}'
    except (OSError, SyntaxError, RecursionError, ValueError) as ex:
        module_failure = f'{path}: {type(ex).__name__}: {ex}'
    for fname, targets, minimal_mode in FILES:
        why, text = module_failure, None
        if why is None:
            try:
                text = translate_group(cls, src, fname, targets, minimal_mode)
            except Unsupported as ex:
                why = f'{path}:{ex}'
            except (RecursionError, ValueError, KeyError, AttributeError, TypeError, IndexError) as ex:
                why = f'{path}: internal {type(ex).__name__}: {ex}'
        if why is not None:
            sys.stderr.write(f'translate_ts_extend: FAIL: {why} [{fname}.v is a stub that does not compile]\n')
            text, status = STUB % {'file': fname, 'why': clean(why)}, 2
        write_if_changed(os.path.join(outdir, fname + '.v'), text)
    return status


if __name__ == '__main__':
    sys.exit(main(sys.argv))
