#!/bin/bash
# Runs every thorough tier once (used through `vp run --with-repo -- tools/thorough_all.sh`): builds the snapshot, then each check
# against the repository snapshot in $VP_RUN_REPO (or /repo).
export VERIF_REPO="${VP_RUN_REPO:-/repo}"
./setup.sh > setup.log 2>&1 || { tail -20 setup.log; exit 2; }
for p in C11 C18 C19 C20 C10 C12 C01 C03 C02 C13 C14 C15 C16 C17 C05 C07 C08 C09 C04 C06; do
  /usr/bin/time -f "$p %es" timeout 5400 ./check $p --tier thorough 2>&1 | grep -a "VIOLATION\|KNOWN\|obligations=\|s$" | cut -c1-220
done
