#!/bin/bash
# usage: tools/seed_eval.sh <worktree> <seed id> <Cxx> [<Cyy> ...] — confirm the seeded change in its scratch worktree, file it under
# /verif/seeded/<id>/, then apply it to /repo, run the named checks and revert.
WT=$1; ID=$2; shift; shift
/verif/tools/confirm_seed.sh "$WT" "$ID" || exit 2
/verif/tools/try_seed.sh /verif/seeded/$ID/patch.diff "$@" | tee /verif/seeded/$ID/caught.txt
