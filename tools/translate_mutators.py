#!/usr/bin/env python3
"""translate_mutators.py -- FAIL-CLOSED translator of the rollback mutators of class CausalGraph to Gallina.

usage:  translate_mutators.py [<repo_root> [<output_dir>]]
        <repo_root>  defaults to $VERIF_REPO, else /repo
        <output_dir> defaults to ../coq/theories relative to this script

Reads, with `ast` only (repository code is never imported or executed),

    <repo_root>/cai_causal_graph/causal_graph.py

extracts from class CausalGraph exactly the methods

    change_edge_type, replace_edge, delete_node, delete_edge

and writes ONE file into <output_dir> (one group: the four methods fail together):

    MutGenRollback.v    property C03 (a rejected mutator call leaves the graph as it was)
                        proofs: MutGenRollbackProofs.v, harness entry points: CorrMutGenRollback.v

One Gallina definition per Python method (gen_<method>), statement by statement; the comments quote the first line
of each Python statement.  The graph object is the explicit state variable v_self : graph (hand model Graph.v); every
definition returns pymut unit = (outcome, STATE LEFT BEHIND).  The runtime / trusted API table is
coq/theories/PyRtMut.v: only the graph API is mapped to primitives of Graph.v; the control flow (ifs, the try /
except / raise, the loop, the order of the statements, which argument goes to which parameter) comes from the Python.

FAIL CLOSED: exactly the subset below is accepted.  On anything else the tool prints
`translate_mutators: FAIL: <file>:<line>: <reason>` to stderr, writes a stub that does NOT compile
(`Definition translator_failed : False := I.`) and exits 2.  The file is left untouched when its text is unchanged.

Accepted subset
  * `def m(self, [/,] p.., [*, kw..])`; parameter annotations NodeLike (name), EdgeType (etype), Optional[EdgeType],
    Optional[dict] (the last two must default to None; no other defaults); the only decorator accepted (and ignored,
    see PyRtMut.v) is `@reset_cached_attributes_decorator`; docstrings, `pass`;
  * `x = e`, `x: T = e`, `a, b = e1, e2` (all right-hand sides are evaluated first); a call that can raise
    (self.get_edge, self.get_node) only as the whole right-hand side of a single assignment or as a statement;
  * `if / elif / else` over a pure test; an `if` followed by further statements either ends every path of its body
    in `raise` (guard) or assigns no local; `assert c [, msg]` (AssertionError); `return` / `return None` as the
    last statement outside loops and try;
  * `raise CausalGraphErrors.<EdgeDoesNotExistError|EdgeExistsError|NodeDoesNotExistError>(<constant or f-string
    over names>)` as the last statement of a block;
  * `try: B except Exception: H; raise` (exactly one handler, no name, no else / finally, the handler ends with a bare
    `raise`, B and H assign no locals);
  * `for x in <list>: B` (no else; B only mutating calls / ifs; no continue / break / return; assigns no locals);
  * mutating statements `self.add_edge(..)`, `self.delete_edge(..)`, `self.remove_edge(..)`,
    `self._nodes_by_identifier.pop(i)`; `<node>.invalidate()` (dropped); arguments are bound to the callee's
    parameters BY NAME through the signature read from the source (which must be the expected one; remove_edge must be
    the one-line forwarder to delete_edge); `*pair` is accepted as the only argument of delete_edge / remove_edge;
  * expressions: names, True / False, `EdgeType.<MEMBER>`, `not e`, `and` / `or`, `==` / `!=` on EdgeType,
    `i in <pair>` / `not in`, `x if x is not None else e` (x an Optional parameter), `[f for x in xs if c..]`,
    `self.edges`, `self._NodeCls.identifier_from(x)`, `e.get_edge_type()`, `e.meta`, `e.get_metadata()`,
    `e.get_edge_pair()`, `self.edge_exists(..)`, `self.node_exists(i)`;
  * (used by delete_edge) `Node.identifier_from(x)`, `isinstance(x, str)` on an identifier, `self.get_nodes(i)`,
    `self.get_edges(s, d[, edge_type=t])` (both endpoints given), `len(<list>)`, non-negative int constants with
    `==` / `!=`, `<Optional parameter> is [not] None`, `x = l[0]` (can raise: whole right-hand side only),
    the mutating statements `<edge>.destination._delete_inbound_edge(<same edge>)`,
    `<edge>.source._delete_outbound_edge(<same edge>)`, `self._edges_by_source[a].pop(b)`,
    `self._edges_by_destination[a].pop(b)`, `self._clean_empty_edge_dictionaries()`, `<edge>.invalidate()` (dropped).
  NB delete_edge is translated as its own definition; inside the other three methods the calls
  self.delete_edge / self.remove_edge are the API row py_delete_edge (= the model's delete_edge), which
  MutGenRollbackProofs.py_delete_edge_is_gen proves equal to the generated delete_edge under the invariant.
  * module / class facts relied upon and checked: CausalGraph defined once; each translated method and each callee
    defined once in it; `_NodeCls` bound to `Node` in the class; Node, EdgeType, CausalGraphErrors imported from
    cai_causal_graph.{graph_components, type_definitions, exceptions} and not rebound at module level; the builtins
    isinstance / len / str / Exception not rebound at module level; _clean_empty_edge_dictionaries defined once;
    `edges` is the property returning self.get_edges().
Everything else (while, with, lambda, nested def, augmented assignment, subscripts, other attributes / methods /
builtins, keyword `edge=`, `**kw`, use of an unknown name, ...) is refused.
"""
import ast
import os
import sys

CLASS = 'CausalGraph'
SOURCE = os.path.join('cai_causal_graph', 'causal_graph.py')
FNAME = 'MutGenRollback'
METHODS = ['change_edge_type', 'replace_edge', 'delete_node', 'delete_edge']

ERRS = {'EdgeDoesNotExistError': 'EEdgeMissing', 'EdgeExistsError': 'EEdgeExists',
        'NodeDoesNotExistError': 'ENodeMissing'}
ETYPES = {'DIRECTED_EDGE': 'Dir', 'UNDIRECTED_EDGE': 'Und', 'BIDIRECTED_EDGE': 'Bi', 'UNKNOWN_EDGE': 'Unk',
          'UNKNOWN_DIRECTED_EDGE': 'UnkDir', 'UNKNOWN_UNDIRECTED_EDGE': 'UnkUnd'}
COQTY = {'name': 'name', 'etype': 'etype', 'oetype': 'option etype', 'meta': 'meta', 'ometa': 'option meta',
         'edge': 'edge', 'node': 'node', 'pair': '(name * name)', 'bool': 'bool'}
# callee signatures the table of PyRtMut.v assumes: (positional names after self, keyword-only names, defaults)
CALLEES = {
    'add_edge': (['source', 'destination'], ['edge_type', 'meta', 'edge', 'validate'],
                 {'source': 'None', 'destination': 'None', 'edge_type': 'EdgeType.DIRECTED_EDGE', 'meta': 'None',
                  'edge': 'None', 'validate': 'True'}),
    'delete_edge': (['source', 'destination'], ['edge_type'], {'edge_type': 'None'}),
    'remove_edge': (['source', 'destination'], ['edge_type'], {'edge_type': 'None'}),
    'get_edge': (['source', 'destination'], ['edge_type'], {'edge_type': 'None'}),
    'edge_exists': (['source', 'destination'], ['edge_type'], {'edge_type': 'None'}),
    'get_edges': (['source', 'destination'], ['edge_type'], {'source': 'None', 'destination': 'None', 'edge_type': 'None'}),
    'get_nodes': (['identifier'], [], {'identifier': 'None'}),
    'get_node': (['identifier'], [], {}),
    'node_exists': (['identifier'], [], {}),
}
REMOVE_EDGE_BODY = 'self.delete_edge(source=source, destination=destination, edge_type=edge_type)'
EDGES_BODY = 'return self.get_edges()'

STUB = '''(** %(file)s.v -- STUB written by tools/translate_mutators.py: the translation was REFUSED:
    %(why)s
    This file does not compile on purpose (fail closed). *)
Definition translator_failed : False := I.
'''


class Unsupported(Exception):
    def __init__(self, node, why):
        line = getattr(node, 'lineno', 0) if node is not None else 0
        super().__init__(f'{line}: {why}')


def clean(s):
    return s.replace('(*', '( *').replace('*)', '* )')


def is_self_attr(e, attr=None):
    return (isinstance(e, ast.Attribute) and isinstance(e.value, ast.Name) and e.value.id == 'self'
            and (attr is None or e.attr == attr))


def strip_doc(body):
    if body and isinstance(body[0], ast.Expr) and isinstance(body[0].value, ast.Constant) \
            and isinstance(body[0].value.value, str):
        return body[1:]
    return body


# ------------------------------------------------------------------------------------------------------------------
# module / class facts
# ------------------------------------------------------------------------------------------------------------------
def find_class(tree):
    found = [n for n in tree.body if isinstance(n, ast.ClassDef) and n.name == CLASS]
    if len(found) != 1:
        raise Unsupported(None, f'class {CLASS} must be defined exactly once at module level (found {len(found)})')
    return found[0]


def method(cls, name):
    found = [n for n in cls.body if isinstance(n, (ast.FunctionDef, ast.AsyncFunctionDef)) and n.name == name]
    if len(found) != 1 or not isinstance(found[0], ast.FunctionDef):
        raise Unsupported(cls, f'method {name} must be defined exactly once in class {CLASS}')
    for n in cls.body:
        for t in (n.targets if isinstance(n, ast.Assign) else [n.target] if isinstance(n, ast.AnnAssign) else []):
            if isinstance(t, ast.Name) and t.id == name:
                raise Unsupported(n, f'{name} is rebound in the class body')
    return found[0]


def check_module(tree, cls):
    want = {'Node': 'cai_causal_graph.graph_components', 'EdgeType': 'cai_causal_graph.type_definitions',
            'CausalGraphErrors': 'cai_causal_graph.exceptions'}
    seen = {}
    for n in tree.body:
        if isinstance(n, ast.ImportFrom):
            for a in n.names:
                nm = a.asname or a.name
                if nm in want:
                    if n.module != want[nm] or a.name != nm or n.level != 0 or nm in seen:
                        raise Unsupported(n, f'{nm} is not imported as the table assumes')
                    seen[nm] = True
        elif isinstance(n, ast.Import):
            for a in n.names:
                if (a.asname or a.name.split('.')[0]) in want:
                    raise Unsupported(n, 'a name of the table is rebound by an import')
        elif isinstance(n, (ast.FunctionDef, ast.ClassDef, ast.AsyncFunctionDef)):
            if n.name in want:
                raise Unsupported(n, f'{n.name} is rebound at module level')
        else:
            for sub in ast.walk(n):
                if isinstance(sub, ast.Name) and isinstance(sub.ctx, (ast.Store, ast.Del)) and sub.id in want:
                    raise Unsupported(n, f'{sub.id} is rebound at module level')
    for n in tree.body:
        names = []
        if isinstance(n, (ast.FunctionDef, ast.ClassDef, ast.AsyncFunctionDef)):
            names = [n.name]
        elif isinstance(n, (ast.Import, ast.ImportFrom)):
            names = [(a.asname or a.name).split('.')[0] for a in n.names]
        else:
            names = [x.id for x in ast.walk(n) if isinstance(x, ast.Name) and isinstance(x.ctx, ast.Store)]
        for b in ('isinstance', 'len', 'str', 'Exception'):
            if b in names:
                raise Unsupported(n, f'builtin {b} is rebound at module level')
    method(cls, '_clean_empty_edge_dictionaries')
    for nm in want:
        if nm not in seen:
            raise Unsupported(None, f'{nm} is not imported from {want[nm]}')
    if not any(isinstance(n, ast.FunctionDef) and n.name == 'reset_cached_attributes_decorator' for n in tree.body):
        raise Unsupported(None, 'reset_cached_attributes_decorator is not a module-level function')
    # _NodeCls = Node
    binds = []
    for n in cls.body:
        if isinstance(n, ast.AnnAssign) and isinstance(n.target, ast.Name) and n.target.id == '_NodeCls':
            binds.append(n.value)
        if isinstance(n, ast.Assign) and any(isinstance(t, ast.Name) and t.id == '_NodeCls' for t in n.targets):
            binds.append(n.value)
    if len(binds) != 1 or not (isinstance(binds[0], ast.Name) and binds[0].id == 'Node'):
        raise Unsupported(cls, '_NodeCls must be bound exactly once, to Node, in the class body')
    # callee signatures
    for name, (pos, kwonly, defaults) in CALLEES.items():
        m = method(cls, name)
        a = m.args
        if a.vararg or a.kwarg:
            raise Unsupported(m, f'callee {name}: *args / **kwargs')
        got_pos = [x.arg for x in a.posonlyargs + a.args]
        if got_pos != ['self'] + pos or [x.arg for x in a.kwonlyargs] != kwonly:
            raise Unsupported(m, f'callee {name}: parameters are not (self, {", ".join(pos + kwonly)})')
        got = {}
        for x, d in zip(reversed(a.posonlyargs + a.args), reversed(a.defaults)):
            got[x.arg] = ast.unparse(d)
        for x, d in zip(a.kwonlyargs, a.kw_defaults):
            if d is not None:
                got[x.arg] = ast.unparse(d)
        if got != defaults:
            raise Unsupported(m, f'callee {name}: defaults are {got}, the table assumes {defaults}')
    rm = strip_doc(method(cls, 'remove_edge').body)
    if len(rm) != 1 or not isinstance(rm[0], ast.Expr) or ast.unparse(rm[0]) != REMOVE_EDGE_BODY:
        raise Unsupported(method(cls, 'remove_edge'), 'remove_edge is not the one-line forwarder to delete_edge')
    ed = method(cls, 'edges')
    if [ast.unparse(d) for d in ed.decorator_list] != ['property'] or \
            [ast.unparse(s) for s in strip_doc(ed.body)] != [EDGES_BODY]:
        raise Unsupported(ed, 'edges is not the property returning self.get_edges()')


# ------------------------------------------------------------------------------------------------------------------
# the translator of one method
# ------------------------------------------------------------------------------------------------------------------
class Tr:
    def __init__(self, src_lines):
        self.lines = src_lines
        self.no_assign = 0      # > 0 inside a block whose local assignments would not be visible afterwards
        self.no_return = 0      # > 0 inside for / try
        self.tmp = 0

    def quote(self, s, ind):
        text = clean(self.lines[s.lineno - 1].strip())
        return f'{ind}(* L{s.lineno}: {text} *)\n'

    # ---------------------------------------------------------------- parameters
    def param_type(self, a, default):
        ann = ast.unparse(a.annotation) if a.annotation is not None else None
        table = {'NodeLike': 'name', 'EdgeType': 'etype', 'Optional[EdgeType]': 'oetype', 'Optional[dict]': 'ometa'}
        if ann not in table:
            raise Unsupported(a, f'parameter {a.arg}: annotation {ann} is not accepted')
        ty = table[ann]
        if ty in ('oetype', 'ometa'):
            if default is None or ast.unparse(default) != 'None':
                raise Unsupported(a, f'parameter {a.arg}: an Optional parameter must default to None')
        elif default is not None:
            raise Unsupported(a, f'parameter {a.arg}: default values are accepted for Optional parameters only')
        return ty

    # ---------------------------------------------------------------- expressions (pure)
    def expr(self, e, env):
        """-> (coq text, type); pure expressions only."""
        if isinstance(e, ast.Name):
            if e.id not in env:
                raise Unsupported(e, f'unknown name {e.id}')
            return f'v_{e.id}', env[e.id]
        if isinstance(e, ast.Constant) and isinstance(e.value, bool):
            return ('true' if e.value else 'false'), 'bool'
        if isinstance(e, ast.Constant) and type(e.value) is int and e.value >= 0:
            return f'{e.value}%nat', 'int'
        if isinstance(e, ast.Attribute):
            if isinstance(e.value, ast.Name) and e.value.id == 'EdgeType' and 'EdgeType' not in env:
                if e.attr not in ETYPES:
                    raise Unsupported(e, f'EdgeType.{e.attr}')
                return ETYPES[e.attr], 'etype'
            if is_self_attr(e, 'edges'):
                return '(py_edges v_self)', ('list', 'edge')
            if e.attr == 'meta' and not is_self_attr(e):
                t, ty = self.expr(e.value, env)
                if ty == 'edge':
                    return f'(py_edge_meta {t})', 'meta'
            raise Unsupported(e, f'attribute {ast.unparse(e)} is not in the table')
        if isinstance(e, ast.UnaryOp) and isinstance(e.op, ast.Not):
            t, ty = self.expr(e.operand, env)
            self.want(e, ty, 'bool')
            return f'(negb {t})', 'bool'
        if isinstance(e, ast.BoolOp):
            parts = []
            for v in e.values:
                t, ty = self.expr(v, env)
                self.want(v, ty, 'bool')
                parts.append(t)
            op = ' && ' if isinstance(e.op, ast.And) else ' || '
            return '(' + op.join(parts) + ')', 'bool'
        if isinstance(e, ast.Compare):
            if len(e.ops) != 1:
                raise Unsupported(e, 'chained comparison')
            op = e.ops[0]
            c0 = e.comparators[0]
            if isinstance(op, (ast.Is, ast.IsNot)):
                if isinstance(c0, ast.Constant) and c0.value is None and isinstance(e.left, ast.Name):
                    a, ta = self.expr(e.left, env)
                    if ta in ('oetype', 'ometa'):
                        t = f'(py_opt_is_None {a})'
                        return (t if isinstance(op, ast.Is) else f'(negb {t})'), 'bool'
                raise Unsupported(e, 'is / is not: only `<Optional parameter> is [not] None`')
            a, ta = self.expr(e.left, env)
            b, tb = self.expr(c0, env)
            if isinstance(op, (ast.Eq, ast.NotEq)) and ta == 'etype' and tb == 'etype':
                t = f'(etype_eqb {a} {b})'
                return (t if isinstance(op, ast.Eq) else f'(negb {t})'), 'bool'
            if isinstance(op, (ast.Eq, ast.NotEq)) and ta == 'int' and tb == 'int':
                t = f'(Nat.eqb {a} {b})'
                return (t if isinstance(op, ast.Eq) else f'(negb {t})'), 'bool'
            if isinstance(op, (ast.In, ast.NotIn)) and ta == 'name' and tb == 'pair':
                t = f'(py_in_pair {a} {b})'
                return (t if isinstance(op, ast.In) else f'(negb {t})'), 'bool'
            raise Unsupported(e, f'comparison {ast.unparse(e)} ({ta} vs {tb}) is not accepted')
        if isinstance(e, ast.IfExp):
            # x if x is not None else d
            t = e.test
            if (isinstance(t, ast.Compare) and len(t.ops) == 1 and isinstance(t.ops[0], ast.IsNot)
                    and isinstance(t.left, ast.Name) and isinstance(t.comparators[0], ast.Constant)
                    and t.comparators[0].value is None and isinstance(e.body, ast.Name) and e.body.id == t.left.id):
                x, tx = self.expr(e.body, env)
                d, td = self.expr(e.orelse, env)
                if (tx, td) in (('oetype', 'etype'), ('ometa', 'meta')):
                    return f'(py_opt_default {x} {d})', td
            raise Unsupported(e, 'only `x if x is not None else e` over an Optional parameter is accepted')
        if isinstance(e, ast.ListComp):
            if len(e.generators) != 1:
                raise Unsupported(e, 'comprehension with several generators')
            g = e.generators[0]
            if g.is_async or not isinstance(g.target, ast.Name) or g.target.id == 'self':
                raise Unsupported(e, 'comprehension target')
            xs, txs = self.expr(g.iter, env)
            if not (isinstance(txs, tuple) and txs[0] == 'list'):
                raise Unsupported(e, 'comprehension over a non-list')
            env2 = dict(env)
            env2[g.target.id] = txs[1]
            v = f'v_{g.target.id}'
            for c in g.ifs:
                ct, cty = self.expr(c, env2)
                self.want(c, cty, 'bool')
                xs = f'(filter (fun {v} => {ct}) {xs})'
            f, tf = self.expr(e.elt, env2)
            return f'(map (fun {v} => {f}) {xs})', ('list', tf)
        if isinstance(e, ast.Call):
            return self.call_pure(e, env)
        raise Unsupported(e, f'expression {type(e).__name__} is not accepted')

    def want(self, node, ty, expected):
        if ty != expected:
            raise Unsupported(node, f'{ast.unparse(node)} has kind {ty}, expected {expected}')

    def bind_args(self, call, callee, env):
        """bind the arguments of self.<callee>(..) to parameter names -> {param: (text, type)}"""
        pos, kwonly, _ = CALLEES[callee]
        out = {}
        if len(call.args) == 1 and isinstance(call.args[0], ast.Starred):
            if callee not in ('delete_edge', 'remove_edge') or call.keywords:
                raise Unsupported(call, '*args is accepted as the only argument of delete_edge / remove_edge')
            p, tp = self.expr(call.args[0].value, env)
            self.want(call.args[0].value, tp, 'pair')
            out['source'], out['destination'] = (f'(fst {p})', 'name'), (f'(snd {p})', 'name')
            return out
        if len(call.args) > len(pos):
            raise Unsupported(call, f'too many positional arguments for {callee}')
        for name, a in zip(pos, call.args):
            if isinstance(a, ast.Starred):
                raise Unsupported(call, 'starred argument')
            out[name] = self.arg(a, env)
        for kw in call.keywords:
            if kw.arg is None:
                raise Unsupported(call, '**kwargs')
            if kw.arg not in pos + kwonly:
                raise Unsupported(call, f'{callee} has no parameter {kw.arg}')
            if kw.arg in out:
                raise Unsupported(call, f'parameter {kw.arg} given twice')
            out[kw.arg] = self.arg(kw.value, env)
        return out

    def arg(self, a, env):
        if isinstance(a, ast.Constant) and a.value is None:
            return 'None', 'none'
        return self.expr(a, env)

    def name_arg(self, call, b, p):
        if p not in b:
            raise Unsupported(call, f'argument {p} is missing')
        self.want(call, b[p][1], 'name')
        return b[p][0]

    def opt_arg(self, call, b, p, base):
        """an Optional[base] parameter with default None"""
        if p not in b or b[p][1] == 'none':
            return 'None'
        t, ty = b[p]
        if ty == base:
            return f'(Some {t})'
        if ty == 'o' + base:
            return t
        raise Unsupported(call, f'argument {p} has kind {ty}')

    def call_pure(self, e, env):
        f = e.func
        if isinstance(f, ast.Name) and f.id in ('len', 'isinstance') and f.id not in env and not e.keywords \
                and not any(isinstance(a, ast.Starred) for a in e.args):
            if f.id == 'len' and len(e.args) == 1:
                t, ty = self.expr(e.args[0], env)
                if isinstance(ty, tuple) and ty[0] == 'list':
                    return f'(py_len {t})', 'int'
            if f.id == 'isinstance' and len(e.args) == 2 and isinstance(e.args[1], ast.Name) \
                    and e.args[1].id == 'str' and 'str' not in env:
                t, ty = self.expr(e.args[0], env)
                if ty == 'name':
                    return f'(py_isinstance_str {t})', 'bool'
            raise Unsupported(e, f'call {ast.unparse(e)} is not in the table')
        if not isinstance(f, ast.Attribute):
            raise Unsupported(e, f'call {ast.unparse(f)} is not in the table')
        # self._NodeCls.identifier_from(x) / Node.identifier_from(x)
        if f.attr == 'identifier_from' and (is_self_attr(f.value, '_NodeCls') or (
                isinstance(f.value, ast.Name) and f.value.id == 'Node' and 'Node' not in env)):
            if len(e.args) != 1 or e.keywords or isinstance(e.args[0], ast.Starred):
                raise Unsupported(e, 'identifier_from takes one positional argument')
            t, ty = self.expr(e.args[0], env)
            self.want(e.args[0], ty, 'name')
            return f'(py_identifier_from {t})', 'name'
        if is_self_attr(f):
            if f.attr in ('edge_exists', 'node_exists'):
                b = self.bind_args(e, f.attr, env)
                if f.attr == 'node_exists':
                    return f'(py_node_exists v_self {self.name_arg(e, b, "identifier")})', 'bool'
                if 'edge_type' in b:
                    raise Unsupported(e, 'edge_exists(edge_type=..) is not in the table')
                return (f'(py_edge_exists v_self {self.name_arg(e, b, "source")} '
                        f'{self.name_arg(e, b, "destination")})'), 'bool'
            if f.attr == 'get_nodes':
                b = self.bind_args(e, 'get_nodes', env)
                return f'(py_get_nodes v_self {self.name_arg(e, b, "identifier")})', ('list', 'node')
            if f.attr == 'get_edges':
                b = self.bind_args(e, 'get_edges', env)
                return (f'(py_get_edges_sd v_self {self.name_arg(e, b, "source")} '
                        f'{self.name_arg(e, b, "destination")} {self.opt_arg(e, b, "edge_type", "etype")})'), \
                    ('list', 'edge')
            if f.attr in ('get_edge', 'get_node'):
                raise Unsupported(e, f'self.{f.attr}(..) can raise: accepted only as the whole right-hand side of '
                                     f'a single assignment or as a statement')
            raise Unsupported(e, f'self.{f.attr}(..) is not in the table (as an expression)')
        # methods of local objects
        if e.args or e.keywords:
            raise Unsupported(e, f'call {ast.unparse(e)} is not in the table')
        t, ty = self.expr(f.value, env)
        table = {('edge', 'get_edge_type'): ('py_edge_type', 'etype'), ('edge', 'get_metadata'): ('py_edge_meta', 'meta'),
                 ('edge', 'get_edge_pair'): ('py_edge_pair', 'pair')}
        if (ty, f.attr) not in table:
            raise Unsupported(e, f'call {ast.unparse(e)} is not in the table')
        fn, rt = table[(ty, f.attr)]
        return f'({fn} {t})', rt

    def call_raising(self, e, env):
        """self.get_edge(..) / self.get_node(..) -> (text : pyout T, type) or None"""
        if isinstance(e, ast.Subscript) and isinstance(e.slice, ast.Constant) and type(e.slice.value) is int \
                and e.slice.value == 0 and isinstance(e.value, ast.Name):
            t, ty = self.expr(e.value, env)
            if isinstance(ty, tuple) and ty[0] == 'list':
                return f'(py_list_first {t})', ty[1]
        if not (isinstance(e, ast.Call) and is_self_attr(e.func) and e.func.attr in ('get_edge', 'get_node')):
            return None
        b = self.bind_args(e, e.func.attr, env)
        if e.func.attr == 'get_node':
            return f'(py_get_node v_self {self.name_arg(e, b, "identifier")})', 'node'
        if 'edge_type' in b:
            raise Unsupported(e, 'get_edge(edge_type=..) is not in the table')
        return (f'(py_get_edge v_self {self.name_arg(e, b, "source")} {self.name_arg(e, b, "destination")})'), 'edge'

    def call_mutating(self, e, env):
        """-> text : pymut unit, or None"""
        if not isinstance(e, ast.Call) or not isinstance(e.func, ast.Attribute):
            return None
        f = e.func
        if is_self_attr(f) and f.attr == 'add_edge':
            b = self.bind_args(e, 'add_edge', env)
            if 'edge' in b:
                raise Unsupported(e, 'add_edge(edge=..) is not in the table')
            ty = 'Dir'
            if 'edge_type' in b:
                self.want(e, b['edge_type'][1], 'etype')
                ty = b['edge_type'][0]
            val = 'true'
            if 'validate' in b:
                self.want(e, b['validate'][1], 'bool')
                val = b['validate'][0]
            return (f'(py_add_edge parse k v_self {self.name_arg(e, b, "source")} '
                    f'{self.name_arg(e, b, "destination")} {ty} {self.opt_arg(e, b, "meta", "meta")} {val})')
        if is_self_attr(f) and f.attr in ('delete_edge', 'remove_edge'):
            b = self.bind_args(e, f.attr, env)
            return (f'(py_delete_edge v_self {self.name_arg(e, b, "source")} {self.name_arg(e, b, "destination")} '
                    f'{self.opt_arg(e, b, "edge_type", "etype")})')
        if is_self_attr(f) and f.attr == '_clean_empty_edge_dictionaries':
            if e.args or e.keywords:
                raise Unsupported(e, '_clean_empty_edge_dictionaries takes no argument')
            return '(py_clean_empty v_self)'
        for attr, ep, fn in (('_delete_inbound_edge', 'destination', 'py_delete_inbound'),
                             ('_delete_outbound_edge', 'source', 'py_delete_outbound')):
            if f.attr == attr:
                v = f.value
                if (isinstance(v, ast.Attribute) and v.attr == ep and isinstance(v.value, ast.Name)
                        and env.get(v.value.id) == 'edge' and len(e.args) == 1 and not e.keywords
                        and isinstance(e.args[0], ast.Name) and e.args[0].id == v.value.id):
                    return f'({fn} v_self v_{v.value.id})'
                raise Unsupported(e, f'{attr}: only <edge>.{ep}.{attr}(<the same edge>) is in the table')
        if f.attr == 'pop' and isinstance(f.value, ast.Subscript) and (
                is_self_attr(f.value.value, '_edges_by_source') or is_self_attr(f.value.value, '_edges_by_destination')):
            if len(e.args) != 1 or e.keywords or isinstance(e.args[0], ast.Starred):
                raise Unsupported(e, 'pop takes exactly the key')
            k1, t1 = self.expr(f.value.slice, env)
            k2, t2 = self.expr(e.args[0], env)
            self.want(f.value.slice, t1, 'name')
            self.want(e.args[0], t2, 'name')
            fn = 'py_src_pop' if f.value.value.attr == '_edges_by_source' else 'py_dst_pop'
            return f'({fn} v_self {k1} {k2})'
        if f.attr == 'pop' and is_self_attr(f.value, '_nodes_by_identifier'):
            if len(e.args) != 1 or e.keywords or isinstance(e.args[0], ast.Starred):
                raise Unsupported(e, '_nodes_by_identifier.pop takes exactly the key')
            t, ty = self.expr(e.args[0], env)
            self.want(e.args[0], ty, 'name')
            return f'(py_nodes_pop v_self {t})'
        return None

    # ---------------------------------------------------------------- statements
    def terminates(self, stmts):
        if not stmts:
            return False
        s = stmts[-1]
        if isinstance(s, ast.Raise):
            return True
        if isinstance(s, ast.If):
            return self.terminates(s.body) and self.terminates(s.orelse)
        return False

    def end(self, env, ind):
        return f'{ind}mu_ret v_self tt'

    def assign(self, s, name, ty, env):
        if self.no_assign:
            raise Unsupported(s, 'assignment to a local inside try / for / an `if` that is followed by further statements')
        if name == 'self':
            raise Unsupported(s, 'assignment to self')
        env2 = dict(env)
        env2[name] = ty
        return env2

    def block(self, stmts, env, ind, tail):
        if not stmts:
            return tail(env, ind)
        s, rest = stmts[0], stmts[1:]

        def cont(env2, ind2=ind):
            return self.block(rest, env2, ind2, tail)
        q = self.quote(s, ind)
        if isinstance(s, ast.Pass) or (isinstance(s, ast.Expr) and isinstance(s.value, ast.Constant)
                                       and isinstance(s.value.value, str)):
            return cont(env)
        if isinstance(s, (ast.Assign, ast.AnnAssign)):
            if isinstance(s, ast.Assign):
                if len(s.targets) != 1:
                    raise Unsupported(s, 'chained assignment')
                tgt, val = s.targets[0], s.value
            else:
                tgt, val = s.target, s.value
                if val is None:
                    raise Unsupported(s, 'annotation without value')
            if isinstance(tgt, ast.Name):
                r = self.call_raising(val, env)
                if r is not None:
                    env2 = self.assign(s, tgt.id, r[1], env)
                    return q + f'{ind}mu_pure v_self {r[0]} (fun v_{tgt.id} =>\n' + cont(env2) + ')'
                t, ty = self.expr(val, env)
                env2 = self.assign(s, tgt.id, ty, env)
                return q + f'{ind}let v_{tgt.id} := {t} in\n' + cont(env2)
            if isinstance(tgt, ast.Tuple) and isinstance(val, ast.Tuple) and len(tgt.elts) == len(val.elts) \
                    and all(isinstance(x, ast.Name) for x in tgt.elts) and len(tgt.elts) >= 2 \
                    and len({x.id for x in tgt.elts}) == len(tgt.elts):
                vals = [self.expr(v, env) for v in val.elts]
                env2 = env
                for x, (_, ty) in zip(tgt.elts, vals):
                    env2 = self.assign(s, x.id, ty, env2)

                def tup(xs):
                    out = xs[0]
                    for x in xs[1:]:
                        out = f'({out}, {x})'
                    return out
                pat = tup([f'v_{x.id}' for x in tgt.elts])
                rhs = tup([t for t, _ in vals])
                return q + f"{ind}let '{pat} := {rhs} in\n" + cont(env2)
            raise Unsupported(s, 'assignment target is not a name or a tuple of names = tuple')
        if isinstance(s, ast.Expr):
            m = self.call_mutating(s.value, env)
            if m is not None:
                return q + f'{ind}mu_bind {m} (fun _ v_self =>\n' + cont(env) + ')'
            r = self.call_raising(s.value, env)
            if r is not None:
                return q + f'{ind}mu_pure v_self {r[0]} (fun _ =>\n' + cont(env) + ')'
            v = s.value
            if isinstance(v, ast.Call) and isinstance(v.func, ast.Attribute) and v.func.attr == 'invalidate' \
                    and isinstance(v.func.value, ast.Name) and env.get(v.func.value.id) in ('node', 'edge') \
                    and not v.args and not v.keywords:
                return q + f'{ind}(* dropped: invalidate() marks the detached object, no model state *)\n' + cont(env)
            raise Unsupported(s, f'statement {ast.unparse(s)[:60]} is not in the table')
        if isinstance(s, ast.Raise):
            if rest:
                raise Unsupported(rest[0], 'statement after raise')
            if s.cause is not None or s.exc is None:
                raise Unsupported(s, 'bare raise outside the end of an `except Exception:` handler / raise .. from')
            x = s.exc
            if not (isinstance(x, ast.Call) and isinstance(x.func, ast.Attribute) and isinstance(x.func.value, ast.Name)
                    and x.func.value.id == 'CausalGraphErrors' and x.func.attr in ERRS and not x.keywords
                    and len(x.args) <= 1):
                raise Unsupported(s, 'raise of something else than CausalGraphErrors.<known class>(msg)')
            for a in x.args:
                self.message(a, env)
            return q + f'{ind}mu_raise v_self {ERRS[x.func.attr]}'
        if isinstance(s, ast.Assert):
            c, ty = self.expr(s.test, env)
            self.want(s.test, ty, 'bool')
            if s.msg is not None:
                self.message(s.msg, env)
            return q + f'{ind}if {c}\n{ind}then (\n' + cont(env, ind + '  ') + f')\n{ind}else (mu_raise v_self EAssert)'
        if isinstance(s, ast.Return):
            if rest or self.no_return or not (s.value is None or (isinstance(s.value, ast.Constant)
                                                                  and s.value.value is None)):
                raise Unsupported(s, 'return is accepted as `return` / `return None`, last, outside for / try')
            return q + f'{ind}mu_ret v_self tt'
        if isinstance(s, ast.If):
            c, ty = self.expr(s.test, env)
            self.want(s.test, ty, 'bool')
            i2 = ind + '  '
            if not rest:
                a = self.block(s.body, env, i2, tail)
                b = self.block(s.orelse, env, i2, tail)
                return q + f'{ind}if {c}\n{ind}then (\n{a})\n{ind}else (\n{b})'
            if self.terminates(s.body) and not s.orelse:
                a = self.block(s.body, env, i2, tail)
                return q + f'{ind}if {c}\n{ind}then (\n{a})\n{ind}else (\n' + cont(env, i2) + ')'
            self.no_assign += 1
            self.no_return += 1
            a = self.block(s.body, env, i2, self.end)
            b = self.block(s.orelse, env, i2, self.end)
            self.no_assign -= 1
            self.no_return -= 1
            return (q + f'{ind}mu_bind (if {c}\n{ind}then (\n{a})\n{ind}else (\n{b})) (fun _ v_self =>\n'
                    + cont(env) + ')')
        if isinstance(s, ast.Try):
            if len(s.handlers) != 1 or s.orelse or s.finalbody:
                raise Unsupported(s, 'try must have exactly one handler and no else / finally')
            h = s.handlers[0]
            if h.name is not None or not (isinstance(h.type, ast.Name) and h.type.id == 'Exception'):
                raise Unsupported(h, 'the handler must be `except Exception:` (no name)')
            if not h.body or not (isinstance(h.body[-1], ast.Raise) and h.body[-1].exc is None
                                  and h.body[-1].cause is None):
                raise Unsupported(h, 'the handler must end with a bare `raise`')
            i2 = ind + '    '
            self.no_assign += 1
            self.no_return += 1
            a = self.block(s.body, env, i2, self.end)
            hq = self.quote(h, ind + '  ')
            b = self.block(h.body[:-1], env, i2, self.end)
            rq = self.quote(h.body[-1], i2)
            self.no_assign -= 1
            self.no_return -= 1
            return (q + f'{ind}mu_bind (mu_try_reraise (\n{a})\n{hq}{ind}  (fun v_self =>\n{b}\n{rq}{ind}  ))'
                    f' (fun _ v_self =>\n' + cont(env) + ')')
        if isinstance(s, ast.For):
            if s.orelse or not isinstance(s.target, ast.Name) or s.target.id == 'self':
                raise Unsupported(s, 'for: else clause / target is not a plain name')
            xs, txs = self.expr(s.iter, env)
            if not (isinstance(txs, tuple) and txs[0] == 'list'):
                raise Unsupported(s, 'for over a non-list')
            env2 = dict(env)
            env2[s.target.id] = txs[1]
            self.no_assign += 1
            self.no_return += 1
            a = self.block(s.body, env2, ind + '    ', self.end)
            self.no_assign -= 1
            self.no_return -= 1
            return (q + f'{ind}mu_for {xs} v_self (fun v_{s.target.id} v_self =>\n{a}) (fun v_self =>\n'
                    + cont(env) + ')')
        raise Unsupported(s, f'statement {type(s).__name__} is not accepted')

    def message(self, m, env):
        if isinstance(m, ast.Constant) and isinstance(m.value, str):
            return
        if isinstance(m, ast.JoinedStr):
            for v in m.values:
                if isinstance(v, ast.Constant):
                    continue
                if isinstance(v, ast.FormattedValue) and isinstance(v.value, ast.Name) and v.value.id in env \
                        and v.format_spec is None:
                    continue
                raise Unsupported(m, 'message: f-string over something else than known names')
            return
        raise Unsupported(m, 'message is not a constant / f-string over names')

    # ---------------------------------------------------------------- a method
    def method(self, m):
        for d in m.decorator_list:
            if not (isinstance(d, ast.Name) and d.id == 'reset_cached_attributes_decorator'):
                raise Unsupported(m, f'decorator {ast.unparse(d)} is not accepted')
        a = m.args
        if a.vararg or a.kwarg:
            raise Unsupported(m, '*args / **kwargs')
        if m.returns is not None and ast.unparse(m.returns) != 'None':
            raise Unsupported(m, 'return annotation')
        params = a.posonlyargs + a.args
        if not params or params[0].arg != 'self':
            raise Unsupported(m, 'first parameter must be self')
        params = params[1:]
        ndef = len(a.defaults)
        defaults = [None] * (len(params) - ndef) + list(a.defaults) if ndef <= len(params) else None
        if defaults is None:
            raise Unsupported(m, 'self has a default')
        env, sig = {}, ['(v_self : graph)']
        for p, d in list(zip(params, defaults)) + list(zip(a.kwonlyargs, a.kw_defaults)):
            if p.arg in env or p.arg == 'self':
                raise Unsupported(p, 'duplicate parameter')
            env[p.arg] = self.param_type(p, d)
            sig.append(f'(v_{p.arg} : {COQTY[env[p.arg]]})')
        body = self.block(strip_doc(m.body), env, '  ', self.end)
        last = max(getattr(n, 'end_lineno', m.lineno) or m.lineno for n in ast.walk(m))
        return (f'(** [{CLASS}.{m.name}], lines {m.lineno}-{last} of causal_graph.py. *)\n'
                f'Definition gen_{m.name} {" ".join(sig)} : pymut unit :=\n{body}.\n')


def translate(cls, src):
    lines = src.split('\n')
    defs = [Tr(lines).method(method(cls, name)) for name in METHODS]
    head = (f'(** {FNAME}.v -- GENERATED by /verif/tools/translate_mutators.py from\n'
            f'    cai_causal_graph/causal_graph.py, class {CLASS}, methods:\n'
            f'      {", ".join(METHODS)}.\n'
            '    DO NOT EDIT: the file is regenerated on every verification run.  One Gallina function per Python\n'
            '    method, statement by statement (the comments quote the first line of each Python statement); the\n'
            '    runtime is PyRtMut.v, whose header documents the mapping (the graph API is mapped onto the primitives\n'
            '    of Graph.v; the control flow is the Python\'s).  [v_self] is the graph object; every function returns\n'
            '    (outcome, state left behind). *)\n'
            'From CG Require Import Base Graph PyRtMut.\n\n'
            'Section Gen.\n'
            '  (* the name codec and the class (plain / time series) the callee add_edge depends on *)\n'
            '  Variable parse : name -> option (name * Z).\n'
            '  Variable k : kind.\n\n')
    return head + '\n'.join(defs) + '\nEnd Gen.\n'


def write_if_changed(out, text):
    if os.path.exists(out):
        with open(out, 'r', encoding='utf-8') as fh:
            if fh.read() == text:
                return
    tmp = out + '.tmp'
    with open(tmp, 'w', encoding='utf-8') as fh:
        fh.write(text)
    os.replace(tmp, out)


def main(argv):
    if len(argv) > 3:
        sys.stderr.write('usage: translate_mutators.py [<repo_root> [<output_dir>]]\n')
        return 2
    root = argv[1] if len(argv) > 1 else os.environ.get('VERIF_REPO', '/repo')
    here = os.path.dirname(os.path.abspath(__file__))
    outdir = argv[2] if len(argv) > 2 else os.path.join(os.path.dirname(here), 'coq', 'theories')
    if not os.path.isdir(outdir):
        sys.stderr.write(f'translate_mutators: FAIL: {outdir} is not a directory\n')
        return 2
    path = os.path.join(root, SOURCE)
    why, text = None, None
    try:
        with open(path, 'r', encoding='utf-8') as fh:
            src = fh.read()
        tree = ast.parse(src, filename=path)
        cls = find_class(tree)
        check_module(tree, cls)
        text = translate(cls, src)
    except Unsupported as ex:
        why = f'{path}:{ex}'
    except (OSError, SyntaxError) as ex:
        why = f'{path}: {type(ex).__name__}: {ex}'
    except (RecursionError, ValueError, KeyError, AttributeError, TypeError, IndexError) as ex:
        why = f'{path}: internal {type(ex).__name__}: {ex}'
    status = 0
    if why is not None:
        sys.stderr.write(f'translate_mutators: FAIL: {why} [{FNAME}.v is a stub that does not compile]\n')
        text, status = STUB % {'file': FNAME, 'why': clean(why)}, 2
    write_if_changed(os.path.join(outdir, FNAME + '.v'), text)
    return status


if __name__ == '__main__':
    sys.exit(main(sys.argv))
