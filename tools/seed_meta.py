#!/usr/bin/env python3
"""usage: tools/seed_meta.py <seed id> <property> <needs> <check=what caught it>...   — writes seeded/<id>/meta.json"""
import json, sys
from pathlib import Path
sid, prop, needs = sys.argv[1:4]
d = Path('/verif/seeded') / sid
caught = {}
for a in sys.argv[4:]:
    k, _, v = a.partition('=')
    caught[k] = v
confirm = (d / 'confirm.txt').read_text().strip() if (d / 'confirm.txt').exists() else ''
meta = dict(property=prop, needs=needs, caught_by=caught,
            ran=['tools/confirm_seed.sh in the scratch worktree (complete pytest suite; demo.py with and without the change)',
                 'tools/try_seed.sh patch.diff <checks> (git -C /repo apply; ./check <Cxx>; git -C /repo checkout -- .)'],
            confirm=confirm)
(d / 'meta.json').write_text(json.dumps(meta, indent=1) + '\n')
print('wrote', d / 'meta.json')
