#!/bin/bash
# Independent re-check of every compiled property file (and everything it depends on) with coqchk; prints the axioms relied upon.
# usage: tools/coqchk_all.sh   (from /verif or a snapshot of it; builds first)   — takes several minutes and a few GB.
export VERIF_REPO="${VP_RUN_REPO:-/repo}"
./setup.sh > setup.log 2>&1 || { tail -20 setup.log; exit 2; }
cd coq
MODS=$(ls theories/Properties/*.v | sed 's|theories/Properties/\(.*\)\.v|CG.Properties.\1|')
/usr/bin/time -f "coqchk %es %MKB" coqchk -silent -o -Q theories CG $MODS > coqchk.out 2>&1; grep -v "PrimInt63\|Uint63" coqchk.out | tail -60; echo "primitive-integer axioms: $(grep -c "PrimInt63\|Uint63" coqchk.out)"
