#!/bin/bash
# usage: tools/confirm_seed.sh <worktree> <seed id>  — confirms in the scratch worktree that the seeded change keeps the suite green,
# that its demo fails with the change and passes without it, and files it under /verif/seeded/<id>/.
WT=$1; ID=$2
cd "$WT" || exit 2
git diff -- cai_causal_graph > /tmp/confirm_$ID.diff
[ -s /tmp/confirm_$ID.diff ] || git apply patch.diff
T=$(PYTHONPATH=$WT timeout 1500 /venv/bin/python -m pytest -q -p no:cacheprovider -n 8 2>&1 | tail -1)
W=$(PYTHONPATH=$WT /venv/bin/python demo.py > /tmp/confirm_$ID.with 2>&1; echo $?)
git apply -R patch.diff
O=$(PYTHONPATH=$WT /venv/bin/python demo.py > /tmp/confirm_$ID.without 2>&1; echo $?)
git apply patch.diff
echo "tests: $T | demo with change: exit $W | demo without: exit $O"
mkdir -p /verif/seeded/$ID
cp patch.diff demo.py NOTE.md /verif/seeded/$ID/ 2>/dev/null
echo "$T" > /verif/seeded/$ID/confirm.txt
echo "demo with change: exit $W; demo without change: exit $O" >> /verif/seeded/$ID/confirm.txt
