#!/usr/bin/env python3
"""translate_traversal.py -- FAIL-CLOSED translator of three traversal methods of class CausalGraph to Gallina.

usage:  translate_traversal.py [<repo_root> [<output_dir>]]
        <repo_root>  defaults to $VERIF_REPO, else /repo
        <output_dir> defaults to ../coq/theories relative to this script

Reads, with `ast` only (repository code is never imported or executed),

    <repo_root>/cai_causal_graph/causal_graph.py

extracts from class CausalGraph exactly the methods

    _assert_node_does_not_depend_on_itself, get_nodes_between (with its nested _has_causal_path_inner),
    directed_path_exists

and writes TWO files into <output_dir>, one per consumer, each translated and failed-closed INDEPENDENTLY (an edit of
one method cannot disturb the proof obligations of a property that only depends on another):

    TraversalGenCyc.v   _assert_node_does_not_depend_on_itself                       (proofs: TraversalGenCycProofs.v)
    TraversalGenQ.v     get_nodes_between (+ nested helper), directed_path_exists    (proofs: TraversalGenQProofs.v)

Each file contains one Gallina definition per Python function (a nested function becomes a
definition of its own, named gen_<outer>__<inner> with leading underscores of <inner> dropped), statement by statement.
The runtime is coq/theories/PyRt.v + PyRtLoop.v; the tables at the top of these files say which Python construct is
mapped to which Coq term (the trusted part).  TraversalGen{Cyc,Q}Proofs.v prove the generated functions equal to the
hand-written models (Queries.v, Graph.v), so an edit of the Python text changes the generated definitions and the
proofs either still go through or break.

FAIL CLOSED: exactly the Python subset described below is accepted.  On anything else the tool prints
`translate_traversal: FAIL: <file>:<line>: <reason>` to stderr, writes -- for the file of the offending group only -- a
stub that does NOT compile (`Definition translator_failed : False := I.`) and exits with status 2 (0 only when both
files are generated).  A construct that cannot be classified at module level (syntax error, class CausalGraph missing or
duplicated) makes both files stubs.  Both files are always written (left untouched when the text is identical).  A
TraversalGen.v left in <output_dir> by an earlier version of this tool is removed.

Every generated function takes the leading parameters `{A} (eqb : A -> A -> bool) (fuel : nat) (v_self : pygraph A)`.

The translation scheme (same as translate_identify.py where they overlap)
  * continuation-passing translation of statements; `return e` -> inj (Ret e), `raise E(..)` -> inj (Exc PyE),
    `assert c[, msg]` -> if c then <rest> else inj (Exc PyAssertionError); falling off the end of a function returns
    None (`Ret tt`); inj is py_top in a function body and py_in in a loop body.
  * `for t in it: body` -> py_for inj it state (fun t state => body) (fun state => rest);
    `while c: body` -> py_while inj fuel (fun state => c) state (fun state => body) (fun state => rest).
    `state` is the tuple of the variables that exist before the loop and that the body assigns or mutates, in the order
    of their first assignment / mutation in the body (evaluation order).  `c` must be free of calls that can fail.
    Variables first assigned inside a loop body are local to one iteration (using them after the loop is refused).
  * in-place mutation (`l.append(x)`, `s.add(x)`, `d[k] = v`, `x = l.pop()`, `x = l.pop(0)`) rebinds the receiver.
    The receiver must be a local name that OWNS a fresh object (literal, constructor, comprehension), or such a name of
    the enclosing function captured by a nested function.  `a = b` between names of mutable kind, storing a mutable
    name into a container, passing it to a call, returning a captured name and iterating over a name that the body
    mutates are refused (aliasing).
  * a nested `def` is translated to a separate definition.  The variables of the enclosing function that it reads
    become extra parameters (passed at each call with their current value); those it MUTATES are also returned:
    the result is `Ret (captured.., result)` and the call site rebinds them.  `nonlocal` / `global` are refused.
  * a function that calls itself (directly, or `self.<same method>(..)`) becomes a Fixpoint on `fuel`
    (`match fuel with O => Fuel | S fuel' => body end`, recursive calls use fuel').
  * calls that can fail (self.get_node, self._nodes_by_identifier[..], d[k], l.pop(), calls of translated functions)
    are hoisted in evaluation order into `py_bind inj <call> (fun r => ..)` in front of the statement; they are refused
    where Python evaluates conditionally or repeatedly (right operand of and/or, conditional expressions, while
    conditions, generator expressions), and a call that mutates state must be the only hoisted call of its statement,
    which must not mention the mutated variables elsewhere.
  * a list / set comprehension whose element or condition contains such a call is accepted as the whole right-hand
    side of an assignment or as the whole operand of `return`, with ONE generator, and is first rewritten to
    `acc = [] / set(); for t in it: [if c:] acc.append / add (elt)` (every element is evaluated, in order).
  * `any(..)` / `all(..)` of a NAME or other fully built list of booleans -> py_any / py_all; of a generator or list
    comprehension without effects -> existsb / forallb.  A generator expression with effects is refused (Python
    would short-circuit it).
  * kinds: node (identifier or Node object: A), int (nat), bool, edge (medge A), list / set / dict, tuple, None (unit).
    The parameter annotations NodeLike / Node / str select `node`, bool / int the obvious ones; other annotations and
    unannotated parameters are refused.  Annotations of locals are ignored.  Docstrings are skipped; messages of
    raise / assert may be constants or f-strings over defined names.
"""
import ast
import os
import sys

TARGETS = ['_assert_node_does_not_depend_on_itself', 'get_nodes_between', 'directed_path_exists']
CLASS = 'CausalGraph'
SOURCE = os.path.join('cai_causal_graph', 'causal_graph.py')
FILES = [('TraversalGenCyc', ['_assert_node_does_not_depend_on_itself']),
         ('TraversalGenQ', ['get_nodes_between', 'directed_path_exists'])]
STALE = ['TraversalGen.v']
GEN_PARAMS = '{A : Type} (eqb : A -> A -> bool) (fuel : nat) (v_self : pygraph A)'
EXCEPTIONS = {'AssertionError': 'PyAssertionError', 'TypeError': 'PyTypeError', 'ValueError': 'PyValueError',
              'KeyError': 'PyKeyError', 'IndexError': 'PyIndexError'}
MAX_OUTPUT_CHARS = 100000


class Unsupported(Exception):
    def __init__(self, node, msg):
        super().__init__(f'{getattr(node, "lineno", "?")}: {msg}')


# ------------------------------------------------------------------------------------------------------------------
# kinds
NODE, INT, BOOL, EDGE, NONE, UNKNOWN, GRAPH = ('node',), ('int',), ('bool',), ('edge',), ('none',), ('unknown',), ('graph',)


def LIST(e): return ('list', e)
def SET(e): return ('set', e)
def DICT(k, v): return ('dict', k, v)
def TUPLE(*es): return ('tuple', tuple(es))


def is_mutable(k):
    return k[0] in ('list', 'set', 'dict', 'unknown', 'graph')


def coq_type(k):
    t = k[0]
    if t == 'node':
        return 'A'
    if t == 'int':
        return 'nat'
    if t == 'bool':
        return 'bool'
    if t == 'edge':
        return 'medge A'
    if t == 'none':
        return 'unit'
    if t in ('list', 'set'):
        return f'list ({coq_type(k[1])})'
    if t == 'dict':
        return f'list ({coq_type(k[1])} * {coq_type(k[2])})'
    if t == 'tuple':
        return '(' + ' * '.join(coq_type(e) for e in k[1]) + ')'
    return '_'


def join_kind(a, b, node):
    """least upper bound of two kinds where `unknown` is bottom"""
    if a == UNKNOWN:
        return b
    if b == UNKNOWN:
        return a
    if a[0] != b[0]:
        raise Unsupported(node, f'kinds {a} and {b} do not agree')
    if a[0] in ('list', 'set'):
        return (a[0], join_kind(a[1], b[1], node))
    if a[0] == 'dict':
        return DICT(join_kind(a[1], b[1], node), join_kind(a[2], b[2], node))
    if a[0] == 'tuple':
        if len(a[1]) != len(b[1]):
            raise Unsupported(node, 'tuple lengths differ')
        return TUPLE(*[join_kind(x, y, node) for x, y in zip(a[1], b[1])])
    return a


def tuple_pat(names):
    if not names:
        return '_'
    if len(names) == 1:
        return names[0]
    return "'(" + ', '.join(names) + ')'


def tuple_val(names):
    if not names:
        return 'tt'
    if len(names) == 1:
        return names[0]
    return '(' + ', '.join(names) + ')'


class Var:
    def __init__(self, coq, kind, owned=False, role='local'):
        self.coq, self.kind, self.owned, self.role = coq, kind, owned, role


class FuncInfo:
    """a translated (or being translated) function"""
    def __init__(self, name, coq_name, params, ret_kind, cap_mut, cap_ro, recursive, is_method, nested_in):
        self.name, self.coq_name, self.params, self.ret_kind = name, coq_name, params, ret_kind
        self.cap_mut, self.cap_ro, self.recursive, self.is_method = cap_mut, cap_ro, recursive, is_method
        self.nested_in = nested_in
        self.fuel_var = "fuel'" if recursive else 'fuel'


class Hoist:
    """a call that can fail, moved in front of its statement"""
    def __init__(self, call, pat, mutates):
        self.call, self.pat, self.mutates = call, pat, mutates


class Ctx:
    def __init__(self, fn, inj, state=None, in_loop=False, fall=None, depth_if=0):
        self.fn, self.inj, self.state, self.in_loop, self.fall, self.depth_if = fn, inj, state, in_loop, fall, depth_if

    def sub(self, **kw):
        c = Ctx(self.fn, self.inj, self.state, self.in_loop, self.fall, self.depth_if)
        for k, v in kw.items():
            setattr(c, k, v)
        return c


def annotation_kind(ann, node):
    if ann is None:
        raise Unsupported(node, 'parameter without annotation')
    if isinstance(ann, ast.Name) and ann.id in ('NodeLike', 'Node', 'str'):
        return NODE
    if isinstance(ann, ast.Name) and ann.id == 'bool':
        return BOOL
    if isinstance(ann, ast.Name) and ann.id == 'int':
        return INT
    raise Unsupported(node, f'unsupported parameter annotation {ast.dump(ann)}')


def return_annotation_kind(ann):
    if ann is None:
        return None
    if isinstance(ann, ast.Name) and ann.id == 'bool':
        return BOOL
    if isinstance(ann, ast.Constant) and ann.value is None:
        return NONE
    if (isinstance(ann, ast.Subscript) and isinstance(ann.value, ast.Name) and ann.value.id in ('Set', 'set')
            and isinstance(ann.slice, ast.Name) and ann.slice.id in ('Node', 'str')):
        return SET(NODE)
    return None


BUILTINS = {'any', 'all', 'len', 'set', 'list', 'dict', 'True', 'False', 'None'}
MUTATORS = {'append', 'add', 'pop'}


def names_in(node):
    return [n.id for n in ast.walk(node) if isinstance(n, ast.Name)]


class Translator:
    def __init__(self, cls, src_lines):
        self.cls, self.src_lines = cls, src_lines
        self.funcs = {}          # python name (qualified for nested) -> FuncInfo
        self.outputs = []        # generated definitions, in dependency order
        self.tmp = 0
        self.nstmts = 0

    # -------------------------------------------------------------------------------------------------------------
    def fresh(self, base='tmp'):
        self.tmp += 1
        return f'{base}_{self.tmp}'

    def first_line(self, node):
        return self.src_lines[node.lineno - 1].strip().replace('(*', '( *').replace('*)', '* )')

    def lookup(self, node, name, env):
        if name not in env:
            raise Unsupported(node, f'name {name!r} is not defined here (or not supported)')
        return env[name]

    # -------------------------------------------------------------------------------------------------------------
    # expressions: returns (coq term, kind); H is the list of hoisted calls (None where hoisting is not allowed)
    def hoist(self, node, H, call, kind, mutates=(), extra_pat=None):
        if H is None:
            raise Unsupported(node, 'a call that can fail / mutates state occurs where Python evaluates conditionally '
                                    'or repeatedly')
        t = self.fresh()
        pat = t if extra_pat is None else extra_pat(t)
        H.append(Hoist(call, pat, tuple(mutates)))
        return t, kind

    def is_self(self, e):
        return isinstance(e, ast.Name) and e.id == 'self'

    def expr(self, e, env, H, fn):
        if isinstance(e, ast.Name):
            if e.id == 'self':
                raise Unsupported(e, 'bare use of self')
            v = self.lookup(e, e.id, env)
            if v.role == 'func':
                raise Unsupported(e, 'a function used as a value')
            return v.coq, v.kind
        if isinstance(e, ast.Constant):
            if e.value is True:
                return 'true', BOOL
            if e.value is False:
                return 'false', BOOL
            if e.value is None:
                return 'tt', NONE
            if isinstance(e.value, int) and e.value >= 0:
                return str(e.value), INT
            raise Unsupported(e, f'constant {e.value!r}')
        if isinstance(e, ast.Attribute):
            return self.attribute(e, env, H, fn)
        if isinstance(e, ast.Call):
            return self.call(e, env, H, fn)
        if isinstance(e, ast.Subscript):
            if not isinstance(e.ctx, ast.Load):
                raise Unsupported(e, 'subscript store in an expression')
            if (isinstance(e.value, ast.Attribute) and self.is_self(e.value.value)
                    and e.value.attr == '_nodes_by_identifier'):
                k, kk = self.expr(e.slice, env, H, fn)
                self.want(e, kk, NODE)
                return self.hoist(e, H, f'py_pg_nodes_by_identifier_getitem eqb v_self {k}', NODE)
            d, dk = self.expr(e.value, env, H, fn)
            if dk[0] != 'dict':
                raise Unsupported(e, 'subscript of something that is not a dict')
            k, kk = self.expr(e.slice, env, H, fn)
            self.want(e, kk, NODE)
            return self.hoist(e, H, f'py_dict_getitem eqb {d} {k}', dk[2])
        if isinstance(e, ast.Compare):
            return self.compare(e, env, H, fn)
        if isinstance(e, ast.BoolOp):
            op = '&&' if isinstance(e.op, ast.And) else '||'
            parts = []
            for i, v in enumerate(e.values):
                c, k = self.expr(v, env, H if i == 0 else None, fn)
                self.want(v, k, BOOL)
                parts.append(f'({c})')
            return '(' + f' {op} '.join(parts) + ')', BOOL
        if isinstance(e, ast.UnaryOp) and isinstance(e.op, ast.Not):
            c, k = self.expr(e.operand, env, H, fn)
            self.want(e, k, BOOL)
            return f'(negb {c})', BOOL
        if isinstance(e, ast.IfExp):
            c, k = self.expr(e.test, env, H, fn)
            self.want(e, k, BOOL)
            a, ka = self.expr(e.body, env, None, fn)
            b, kb = self.expr(e.orelse, env, None, fn)
            return f'(if {c} then {a} else {b})', join_kind(ka, kb, e)
        if isinstance(e, ast.List):
            items, k = [], UNKNOWN
            for x in e.elts:
                c, kx = self.expr(x, env, H, fn)
                if is_mutable(kx):
                    raise Unsupported(x, 'a mutable object stored in a list')
                k = join_kind(k, kx, x)
                items.append(c)
            return ('[' + '; '.join(items) + ']' if items else 'py_list_empty'), LIST(k)
        if isinstance(e, ast.Tuple):
            items, ks = [], []
            for x in e.elts:
                c, kx = self.expr(x, env, H, fn)
                if is_mutable(kx):
                    raise Unsupported(x, 'a mutable object stored in a tuple')
                items.append(c)
                ks.append(kx)
            if len(items) < 2:
                raise Unsupported(e, 'tuple with fewer than two components')
            return '(' + ', '.join(items) + ')', TUPLE(*ks)
        if isinstance(e, ast.Dict) and not e.keys:
            return 'py_dict_empty', DICT(UNKNOWN, UNKNOWN)
        if isinstance(e, (ast.ListComp, ast.SetComp)):
            return self.comprehension(e, env, H, fn)
        raise Unsupported(e, f'unsupported expression {type(e).__name__}')

    def want(self, node, k, expected):
        if k != expected and k != UNKNOWN:
            raise Unsupported(node, f'expected kind {expected[0]}, found {k[0]}')

    def attribute(self, e, env, H, fn):
        if self.is_self(e.value):
            raise Unsupported(e, f'attribute self.{e.attr} used as a value')
        if e.attr == 'identifier':
            inner = e.value
            if isinstance(inner, ast.Attribute) and inner.attr in ('source', 'destination') and not self.is_self(inner.value):
                c, k = self.expr(inner.value, env, H, fn)
                self.want(e, k, EDGE)
                return f'(py_edge_{inner.attr}_identifier {c})', NODE
            c, k = self.expr(inner, env, H, fn)
            self.want(e, k, NODE)
            return f'(py_node_identifier {c})', NODE
        c, k = self.expr(e.value, env, H, fn)
        if e.attr in ('source', 'destination'):
            self.want(e, k, EDGE)
            return f'(py_edge_{e.attr} {c})', NODE
        if e.attr in ('_inbound_edges', '_outbound_edges'):
            self.want(e, k, NODE)
            return f'(py_node_{e.attr} v_self {c})', LIST(EDGE)
        raise Unsupported(e, f'unsupported attribute .{e.attr}')

    def plain_args(self, e, n=None):
        if e.keywords or any(isinstance(a, ast.Starred) for a in e.args):
            raise Unsupported(e, 'keyword / starred arguments')
        if n is not None and len(e.args) != n:
            raise Unsupported(e, f'expected {n} argument(s)')
        return e.args

    def call(self, e, env, H, fn):
        f = e.func
        if isinstance(f, ast.Name):
            name = f.id
            if name in env and env[name].role == 'func':
                return self.call_translated(e, env[name].kind, env, H, fn)
            if name in env:
                raise Unsupported(e, f'call of the local {name!r}')
            if name == 'len':
                (a,) = self.plain_args(e, 1)
                c, k = self.expr(a, env, H, fn)
                if k[0] not in ('list', 'set', 'dict'):
                    raise Unsupported(e, 'len of something that is not a list / set / dict')
                return f'(length {c})', INT
            if name in ('any', 'all'):
                (a,) = self.plain_args(e, 1)
                if isinstance(a, (ast.GeneratorExp, ast.ListComp)):
                    if len(a.generators) != 1 or a.generators[0].ifs or a.generators[0].is_async:
                        raise Unsupported(a, 'any / all over a comprehension with several generators or conditions')
                    g = a.generators[0]
                    it, ik = self.expr(g.iter, env, H, fn)
                    env2, pat = self.bind_target(g.target, self.iter_elem(g.iter, ik), env)
                    p, pk = self.expr(a.elt, env2, None, fn)   # effects refused: Python would short-circuit
                    self.want(a, pk, BOOL)
                    return f'({"existsb" if name == "any" else "forallb"} (fun {pat} => {p}) {it})', BOOL
                c, k = self.expr(a, env, H, fn)
                if k[0] != 'list' or k[1] not in (BOOL, UNKNOWN):
                    raise Unsupported(e, 'any / all of something that is not a list of booleans')
                return f'(py_{name} {c})', BOOL
            if name in ('set', 'list', 'dict') and not e.args and not e.keywords:
                return {'set': ('py_set_empty', SET(UNKNOWN)), 'list': ('py_list_empty', LIST(UNKNOWN)),
                        'dict': ('py_dict_empty', DICT(UNKNOWN, UNKNOWN))}[name]
            raise Unsupported(e, f'call of {name!r}')
        if not isinstance(f, ast.Attribute):
            raise Unsupported(e, 'unsupported callee')
        m, recv = f.attr, f.value
        # Node.identifier_from(x), self._NodeCls.identifier_from(x)
        if m == 'identifier_from' and ((isinstance(recv, ast.Name) and recv.id == 'Node' and 'Node' not in env) or
                                       (isinstance(recv, ast.Attribute) and recv.attr == '_NodeCls' and self.is_self(recv.value))):
            (a,) = self.plain_args(e, 1)
            c, k = self.expr(a, env, H, fn)
            self.want(e, k, NODE)
            return c, NODE
        if self.is_self(recv):
            if m == 'get_node':
                (a,) = self.plain_args(e, 1)
                c, k = self.expr(a, env, H, fn)
                self.want(e, k, NODE)
                return self.hoist(e, H, f'py_pg_get_node eqb v_self {c}', NODE)
            if m == 'node_exists':
                (a,) = self.plain_args(e, 1)
                c, k = self.expr(a, env, H, fn)
                self.want(e, k, NODE)
                return f'(py_pg_node_exists eqb v_self {c})', BOOL
            if m == 'is_dag':
                self.plain_args(e, 0)
                return '(py_pg_is_dag v_self)', BOOL
            if m in self.funcs and self.funcs[m].is_method:
                return self.call_translated(e, self.funcs[m], env, H, fn)
            raise Unsupported(e, f'unsupported method self.{m}')
        if m == 'pop':
            if not isinstance(recv, ast.Name):
                raise Unsupported(e, 'pop on something that is not a name')
            v = self.mutable_receiver(e, recv.id, env, 'list')
            args = self.plain_args(e)
            if len(args) == 0:
                op = 'py_list_pop'
            elif len(args) == 1 and isinstance(args[0], ast.Constant) and args[0].value == 0 and args[0].value is not False:
                op = 'py_list_pop0'
            else:
                raise Unsupported(e, 'pop with an argument other than the constant 0')
            return self.hoist(e, H, f'{op} {v.coq}', v.kind[1], mutates=[recv.id],
                              extra_pat=lambda t: f"'({v.coq}, {t})")
        c, k = self.expr(recv, env, H, fn)
        if m in ('get_inbound_edges', 'get_outbound_edges'):
            self.plain_args(e, 0)
            self.want(e, k, NODE)
            return f'(py_node_{m} v_self {c})', LIST(EDGE)
        if m in ('is_sink_node', 'is_source_node'):
            self.plain_args(e, 0)
            self.want(e, k, NODE)
            return f'(py_node_{m} v_self {c})', BOOL
        if m == 'items' and k[0] == 'dict':
            self.plain_args(e, 0)
            return f'(py_dict_items {c})', LIST(TUPLE(k[1], k[2]))
        raise Unsupported(e, f'unsupported method .{m}')

    def mutable_receiver(self, node, name, env, shape):
        v = self.lookup(node, name, env)
        if v.kind[0] != shape:
            raise Unsupported(node, f'{name!r} is not a {shape}')
        if not v.owned:
            raise Unsupported(node, f'{name!r} does not own its object (parameter, loop variable, view or alias): '
                                    'mutating it is refused')
        return v

    def call_translated(self, e, info, env, H, fn):
        args = self.plain_args(e, len(info.params))
        cs = []
        for a, (pn, pk) in zip(args, info.params):
            c, k = self.expr(a, env, H, fn)
            if is_mutable(k):
                raise Unsupported(a, 'a mutable object passed to a translated function')
            self.want(a, k, pk)
            cs.append(c)
        caps = []
        for n in info.cap_mut + info.cap_ro:
            v = self.lookup(e, n, env)
            if n in info.cap_mut and not v.owned:
                raise Unsupported(e, f'captured variable {n!r} does not own its object here')
            caps.append(v.coq)
        fuel = fn.fuel_var
        call = ' '.join([info.coq_name, 'eqb', fuel, 'v_self'] + caps + cs)
        if info.ret_kind is None:
            raise Unsupported(e, f'the result kind of {info.name} is not known (missing return annotation)')
        mutv = [env[n].coq for n in info.cap_mut]
        if mutv:
            return self.hoist(e, H, call, info.ret_kind, mutates=info.cap_mut,
                              extra_pat=lambda t: "'(" + ', '.join(mutv + [t]) + ')')
        return self.hoist(e, H, call, info.ret_kind)

    def compare(self, e, env, H, fn):
        if len(e.ops) != 1:
            raise Unsupported(e, 'chained comparison')
        op, l, r = e.ops[0], e.left, e.comparators[0]
        if isinstance(op, (ast.In, ast.NotIn)):
            lc, lk = self.expr(l, env, H, fn)
            self.want(l, lk, NODE)
            if (isinstance(r, ast.Call) and isinstance(r.func, ast.Attribute) and r.func.attr == 'get_node_names'
                    and self.is_self(r.func.value) and not r.args and not r.keywords):
                t = f'(memb eqb {lc} (py_pg_get_node_names v_self))'
            else:
                rc, rk = self.expr(r, env, H, fn)
                if rk[0] in ('list', 'set'):
                    self.want(r, rk[1], NODE)
                    t = f'(memb eqb {lc} {rc})'
                elif rk[0] == 'dict':
                    t = f'(py_dict_contains eqb {rc} {lc})'
                else:
                    raise Unsupported(e, 'membership in something that is not a list / set / dict')
            return (t if isinstance(op, ast.In) else f'(negb {t})'), BOOL
        lc, lk = self.expr(l, env, H, fn)
        rc, rk = self.expr(r, env, H, fn)
        k = join_kind(lk, rk, e)
        if isinstance(op, (ast.Eq, ast.NotEq)):
            if k == NODE:
                t = f'(eqb {lc} {rc})'
            elif k == INT:
                t = f'(Nat.eqb {lc} {rc})'
            elif k == BOOL:
                t = f'(Bool.eqb {lc} {rc})'
            else:
                raise Unsupported(e, f'== on kind {k[0]}')
            return (t if isinstance(op, ast.Eq) else f'(negb {t})'), BOOL
        if k != INT:
            raise Unsupported(e, 'ordering comparison on something that is not an integer')
        if isinstance(op, ast.Gt):
            return f'(Nat.ltb {rc} {lc})', BOOL
        if isinstance(op, ast.GtE):
            return f'(Nat.leb {rc} {lc})', BOOL
        if isinstance(op, ast.Lt):
            return f'(Nat.ltb {lc} {rc})', BOOL
        if isinstance(op, ast.LtE):
            return f'(Nat.leb {lc} {rc})', BOOL
        raise Unsupported(e, 'unsupported comparison')

    def iter_elem(self, node, k):
        if k[0] != 'list':
            raise Unsupported(node, 'iteration over something that is not a list (sets / dicts: use a list)')
        return k[1]

    def bind_target(self, target, kind, env):
        env2 = dict(env)
        if isinstance(target, ast.Name):
            if target.id == 'self':
                raise Unsupported(target, 'self rebound')
            env2[target.id] = Var('v_' + target.id, kind, owned=False, role='loop')
            return env2, 'v_' + target.id
        if isinstance(target, ast.Tuple) and all(isinstance(t, ast.Name) for t in target.elts):
            if kind[0] != 'tuple' or len(kind[1]) != len(target.elts):
                raise Unsupported(target, 'tuple target does not match the kind of the items')
            for t, k in zip(target.elts, kind[1]):
                env2[t.id] = Var('v_' + t.id, k, owned=False, role='loop')
            return env2, "'(" + ', '.join('v_' + t.id for t in target.elts) + ')'
        raise Unsupported(target, 'unsupported loop / comprehension target')

    def comp_has_effects(self, e, env):
        """does the element / a condition of the comprehension contain a call that must be hoisted?"""
        for g in e.generators:
            for part in [e.elt] + g.ifs:
                for n in ast.walk(part):
                    if isinstance(n, ast.Subscript):
                        return True
                    if isinstance(n, ast.Call):
                        f = n.func
                        if isinstance(f, ast.Name) and f.id not in ('len', 'any', 'all'):
                            return True
                        if isinstance(f, ast.Attribute) and (f.attr in ('get_node', 'pop') or
                                                             (self.is_self(f.value) and f.attr in self.funcs)):
                            return True
        return False

    def comprehension(self, e, env, H, fn):
        envs, its, pats = env, [], []
        for i, g in enumerate(e.generators):
            if g.is_async:
                raise Unsupported(e, 'async comprehension')
            it, ik = self.expr(g.iter, envs, H if i == 0 else None, fn)
            envs, pat = self.bind_target(g.target, self.iter_elem(g.iter, ik), envs)
            conds = []
            for c in g.ifs:
                cc, ck = self.expr(c, envs, None, fn)
                self.want(c, ck, BOOL)
                conds.append(cc)
            its.append((it, pat, conds))
        elt, ek = self.expr(e.elt, envs, None, fn)
        if is_mutable(ek):
            raise Unsupported(e, 'a mutable object stored by a comprehension')
        if len(its) == 1 and not its[0][2]:
            body = f'(map (fun {its[0][1]} => {elt}) {its[0][0]})'
        else:
            body = f'[{elt}]'
            for it, pat, conds in reversed(its):
                for c in reversed(conds):
                    body = f'(if {c} then {body} else [])'
                body = f'(flat_map (fun {pat} => {body}) {it})'
        if isinstance(e, ast.SetComp):
            self.want(e, ek, NODE)
            return f'(py_set_of eqb {body})', SET(ek)
        return body, LIST(ek)

    # -------------------------------------------------------------------------------------------------------------
    # statements
    def mutated_in(self, stmts, fn_env):
        """names assigned or mutated by the statements, in evaluation order (first occurrence)"""
        out = []

        def add(n):
            if n not in out:
                out.append(n)

        def visit_expr(e):
            for n in ast.walk(e):
                if isinstance(n, ast.Call):
                    f = n.func
                    if isinstance(f, ast.Attribute) and f.attr in MUTATORS and isinstance(f.value, ast.Name):
                        add(f.value.id)
                    info = None
                    if isinstance(f, ast.Name) and f.id in fn_env and fn_env[f.id].role == 'func':
                        info = fn_env[f.id].kind
                    if info is not None:
                        for c in info.cap_mut:
                            add(c)

        def visit_target(t):
            if isinstance(t, ast.Name):
                add(t.id)
            elif isinstance(t, ast.Tuple):
                for x in t.elts:
                    visit_target(x)
            elif isinstance(t, ast.Subscript) and isinstance(t.value, ast.Name):
                add(t.value.id)

        def visit(s):
            if isinstance(s, ast.Assign):
                visit_expr(s.value)
                for t in s.targets:
                    visit_target(t)
            elif isinstance(s, ast.AnnAssign):
                if s.value is not None:
                    visit_expr(s.value)
                visit_target(s.target)
            elif isinstance(s, ast.AugAssign):
                visit_expr(s.value)
                visit_target(s.target)
            elif isinstance(s, (ast.Expr, ast.Return)):
                if s.value is not None:
                    visit_expr(s.value)
            elif isinstance(s, ast.If):
                visit_expr(s.test)
                for x in s.body + s.orelse:
                    visit(x)
            elif isinstance(s, ast.While):
                visit_expr(s.test)
                for x in s.body + s.orelse:
                    visit(x)
            elif isinstance(s, ast.For):
                visit_expr(s.iter)
                visit_target(s.target)
                for x in s.body + s.orelse:
                    visit(x)
            elif isinstance(s, (ast.Assert, ast.Raise)):
                for c in ast.iter_child_nodes(s):
                    visit_expr(c)
            elif isinstance(s, (ast.Pass, ast.Break, ast.Continue)):
                pass
            else:
                for c in ast.walk(s):
                    if isinstance(c, ast.Name) and isinstance(c.ctx, ast.Store):
                        add(c.id)
        for s in stmts:
            visit(s)
        return out

    def wrap(self, H, ctx, ind, inner):
        """py_bind chain for the hoisted calls around [inner] (a function of the indentation)"""
        lines, close = [], 0
        for h in H:
            lines.append(f'{ind}py_bind {ctx.inj} ({h.call}) (fun {h.pat} =>')
            close += 1
        body = inner(ind)
        return '\n'.join(lines + [body]) + ')' * close

    def check_hoists(self, node, H, exprs):
        muts = [h for h in H if h.mutates]
        if not muts:
            return
        if len(H) != 1:
            raise Unsupported(node, 'a call that mutates state together with another call that can fail in one statement')
        h = H[0]
        occ = sum(names_in(x).count(n) for x in exprs for n in h.mutates)
        allowed = 1 if h.call.startswith('py_list_pop') else 0
        if occ > allowed:
            raise Unsupported(node, f'the statement mentions {h.mutates} besides the call that mutates it')

    def message_ok(self, node, m, env):
        if m is None or (isinstance(m, ast.Constant) and isinstance(m.value, str)):
            return
        if isinstance(m, ast.JoinedStr):
            for v in m.values:
                if isinstance(v, ast.Constant):
                    continue
                if (isinstance(v, ast.FormattedValue) and isinstance(v.value, ast.Name) and v.value.id in env
                        and v.format_spec is None):
                    continue
                raise Unsupported(node, 'message: f-string over something that is not a defined name')
            return
        raise Unsupported(node, 'message that is not a constant or an f-string over names')

    def ret(self, ctx, env, value):
        caps = [env[n].coq for n in ctx.fn.cap_mut]
        return f'{ctx.inj} (Ret {tuple_val(caps + [value]) if caps else value})'

    def state_vals(self, ctx, env):
        return tuple_val([env[n].coq for n in ctx.state])

    def comment(self, ind, s, extra=''):
        return f'{ind}(* L{s.lineno}: {extra}{self.first_line(s)} *)'

    def desugar_comp(self, s, target_name, comp):
        """x = [elt for t in it if c]  ==>  x = []; for t in it: if c: x.append(elt)"""
        if len(comp.generators) != 1:
            raise Unsupported(comp, 'a comprehension with effects and several generators')
        g = comp.generators[0]
        if target_name in names_in(comp):
            raise Unsupported(comp, 'the comprehension mentions the name it is assigned to')
        is_set = isinstance(comp, ast.SetComp)
        init = ast.Assign(targets=[ast.Name(id=target_name, ctx=ast.Store())],
                          value=ast.Call(func=ast.Name(id='set' if is_set else 'list', ctx=ast.Load()), args=[], keywords=[]))
        add = ast.Expr(value=ast.Call(func=ast.Attribute(value=ast.Name(id=target_name, ctx=ast.Load()),
                                                         attr='add' if is_set else 'append', ctx=ast.Load()),
                                      args=[comp.elt], keywords=[]))
        body = [add]
        for c in reversed(g.ifs):
            body = [ast.If(test=c, body=body, orelse=[])]
        loop = ast.For(target=g.target, iter=g.iter, body=body, orelse=[])
        for n in (init, loop):
            ast.copy_location(n, s)
            for c in ast.walk(n):
                if not hasattr(c, 'lineno'):
                    ast.copy_location(c, s)
            ast.fix_missing_locations(n)
        init._desugared = loop._desugared = True
        return [init, loop]

    def block(self, stmts, env, ctx, ind):
        if not stmts:
            return ind + ctx.fall(env, ind)
        s, rest = stmts[0], stmts[1:]
        self.nstmts += 1
        if self.nstmts > 4000:
            raise Unsupported(s, 'the generated text is too large (continuation duplication)')
        des = '[desugared] ' if getattr(s, '_desugared', False) else ''
        cm = self.comment(ind, s, des)
        fn = ctx.fn

        def cont(env2, ind2=ind):
            return self.block(rest, env2, ctx, ind2)

        if isinstance(s, ast.Expr) and isinstance(s.value, ast.Constant) and isinstance(s.value.value, str):
            return cont(env)
        if isinstance(s, ast.Pass):
            return cont(env)
        if isinstance(s, (ast.Assign, ast.AnnAssign)):
            if isinstance(s, ast.Assign):
                if len(s.targets) != 1:
                    raise Unsupported(s, 'multiple assignment targets')
                target, value, hint = s.targets[0], s.value, None
            else:
                if s.value is None:
                    raise Unsupported(s, 'annotation without value')
                target, value, hint = s.target, s.value, s.annotation
            if isinstance(target, ast.Subscript):
                return self.setitem(s, target, value, env, ctx, ind, cm, cont)
            if not isinstance(target, ast.Name) or target.id == 'self':
                raise Unsupported(s, 'unsupported assignment target')
            name = target.id
            if name in env and env[name].role in ('func',):
                raise Unsupported(s, 'a function name is rebound')
            if name in fn.cap_mut + fn.cap_ro:
                raise Unsupported(s, f'the captured name {name!r} is assigned')
            if isinstance(value, (ast.ListComp, ast.SetComp)) and self.comp_has_effects(value, env):
                return self.block(self.desugar_comp(s, name, value) + rest, env, ctx, ind)
            H = []
            c, k = self.expr(value, env, H, fn)
            self.check_hoists(s, H, [value])
            if isinstance(value, ast.Name) and is_mutable(k):
                raise Unsupported(s, f'{name} = {value.id}: two names for one mutable object')
            if k == GRAPH:
                raise Unsupported(s, 'graph assigned to a name')
            fresh = isinstance(value, (ast.List, ast.ListComp, ast.SetComp, ast.Dict)) or (
                isinstance(value, ast.Call) and isinstance(value.func, ast.Name) and value.func.id in ('set', 'list', 'dict'))
            k = self.hint_kind(hint, k)
            env2 = dict(env)
            env2[name] = Var('v_' + name, k, owned=(fresh or not is_mutable(k)), role='local')
            return cm + '\n' + self.wrap(H, ctx, ind, lambda i: f'{i}let v_{name} := {c} in\n' + cont(env2, i))
        if isinstance(s, ast.Expr) and isinstance(s.value, ast.Call):
            call = s.value
            f = call.func
            if isinstance(f, ast.Attribute) and f.attr in ('append', 'add') and isinstance(f.value, ast.Name):
                name = f.value.id
                v = self.mutable_receiver(s, name, env, 'list' if f.attr == 'append' else 'set')
                (a,) = self.plain_args(call, 1)
                if name in names_in(a):
                    raise Unsupported(s, 'the receiver occurs in the argument')
                H = []
                c, k = self.expr(a, env, H, fn)
                self.check_hoists(s, H, [a])
                if is_mutable(k):
                    raise Unsupported(s, 'a mutable object stored in a container')
                if f.attr == 'add':
                    self.want(s, k, NODE)
                v.kind = (v.kind[0], join_kind(v.kind[1], k, s))
                op = f'py_list_append {v.coq} {c}' if f.attr == 'append' else f'py_set_add eqb {v.coq} {c}'
                return cm + '\n' + self.wrap(H, ctx, ind, lambda i: f'{i}let {v.coq} := {op} in\n' + cont(env, i))
            H = []
            self.expr(call, env, H, fn)
            if not H:
                raise Unsupported(s, 'an expression statement without effect that the translator knows')
            self.check_hoists(s, H, [call])
            return cm + '\n' + self.wrap(H, ctx, ind, lambda i: cont(env, i))
        if isinstance(s, ast.If):
            H = []
            c, k = self.expr(s.test, env, H, fn)
            self.want(s, k, BOOL)
            self.check_hoists(s, H, [s.test])

            def inner(i):
                sub = ctx.sub(fall=lambda e2, i2: cont(e2, i2).lstrip(), depth_if=ctx.depth_if + 1)
                a = self.block(s.body, env, sub, i + '  ')
                b = self.block(s.orelse, env, sub, i + '  ')
                return f'{i}if {c}\n{i}then (\n{a})\n{i}else (\n{b})'
            return cm + '\n' + self.wrap(H, ctx, ind, inner)
        if isinstance(s, (ast.For, ast.While)):
            return self.loop(s, rest, env, ctx, ind, cm)
        if isinstance(s, ast.Return):
            value = s.value
            if isinstance(value, (ast.ListComp, ast.SetComp)) and self.comp_has_effects(value, env):
                t = self.fresh('comp')
                pre = self.desugar_comp(s, t, value)
                r = ast.Return(value=ast.Name(id=t, ctx=ast.Load()))
                ast.copy_location(r, s)
                ast.fix_missing_locations(r)
                r._desugared = True
                return self.block(pre + [r], env, ctx, ind)
            if ctx.in_loop and False:
                pass
            if value is None:
                c, k, H = 'tt', NONE, []
            else:
                H = []
                c, k = self.expr(value, env, H, fn)
                self.check_hoists(s, H, [value])
                if isinstance(value, ast.Name) and is_mutable(k) and not (env[value.id].owned and env[value.id].role == 'local'):
                    raise Unsupported(s, 'returning a mutable object that the function does not own')
            fn.ret_kind = k if fn.ret_kind is None else join_kind(fn.ret_kind, k, s)
            return cm + '\n' + self.wrap(H, ctx, ind, lambda i: i + self.ret(ctx, env, c))
        if isinstance(s, ast.Raise):
            if s.cause is not None or s.exc is None:
                raise Unsupported(s, 'raise from / bare raise')
            exc = s.exc
            if isinstance(exc, ast.Call):
                if exc.keywords or len(exc.args) > 1:
                    raise Unsupported(s, 'exception with several / keyword arguments')
                self.message_ok(s, exc.args[0] if exc.args else None, env)
                exc = exc.func
            if not (isinstance(exc, ast.Name) and exc.id in EXCEPTIONS and exc.id not in env):
                raise Unsupported(s, 'unsupported exception class')
            return cm + '\n' + f'{ind}{ctx.inj} (Exc {EXCEPTIONS[exc.id]})'
        if isinstance(s, ast.Assert):
            self.message_ok(s, s.msg, env)
            H = []
            c, k = self.expr(s.test, env, H, fn)
            self.want(s, k, BOOL)
            self.check_hoists(s, H, [s.test])
            return cm + '\n' + self.wrap(H, ctx, ind, lambda i: f'{i}if {c}\n{i}then (\n' + cont(env, i + '  ') +
                                         f')\n{i}else (\n{i}  {ctx.inj} (Exc PyAssertionError))')
        if isinstance(s, ast.Break):
            if not ctx.in_loop:
                raise Unsupported(s, 'break outside a loop')
            return cm + '\n' + f'{ind}Brk {self.state_vals(ctx, env)}'
        if isinstance(s, ast.Continue):
            if not ctx.in_loop:
                raise Unsupported(s, 'continue outside a loop')
            return cm + '\n' + f'{ind}Cont {self.state_vals(ctx, env)}'
        if isinstance(s, ast.FunctionDef):
            if ctx.in_loop or ctx.depth_if or fn.nested_in is not None:
                raise Unsupported(s, 'a nested function that is not at the top level of a method body')
            info = self.function(s, env, fn)
            env2 = dict(env)
            env2[s.name] = Var(None, info, role='func')
            return f'{ind}(* L{s.lineno}: def {s.name}(..): translated to {info.coq_name} *)\n' + cont(env2)
        raise Unsupported(s, f'unsupported statement {type(s).__name__}')

    def hint_kind(self, hint, k):
        """an annotation of a local is only used to refine an unknown kind (Coq checks the result)"""
        if hint is None:
            return k
        try:
            if (isinstance(hint, ast.Subscript) and isinstance(hint.value, ast.Name) and hint.value.id in ('dict', 'Dict')
                    and isinstance(hint.slice, ast.Tuple) and len(hint.slice.elts) == 2 and k[0] == 'dict'):
                m = {'str': NODE, 'bool': BOOL, 'int': INT}
                a, b = hint.slice.elts
                if isinstance(a, ast.Name) and isinstance(b, ast.Name) and a.id in m and b.id in m:
                    return join_kind(k, DICT(m[a.id], m[b.id]), hint)
        except Unsupported:
            pass
        return k

    def setitem(self, s, target, value, env, ctx, ind, cm, cont):
        if not isinstance(target.value, ast.Name):
            raise Unsupported(s, 'item assignment on something that is not a name')
        name = target.value.id
        v = self.mutable_receiver(s, name, env, 'dict')
        if name in names_in(target.slice) or name in names_in(value):
            raise Unsupported(s, 'the dictionary occurs in its own key / value')
        H = []
        kc, kk = self.expr(target.slice, env, H, ctx.fn)   # Python evaluates the value first, then the key
        vc, vk = self.expr(value, env, H, ctx.fn)
        if H:
            raise Unsupported(s, 'a call that can fail inside an item assignment')
        self.want(s, kk, NODE)
        if is_mutable(vk):
            raise Unsupported(s, 'a mutable object stored in a dictionary')
        v.kind = join_kind(v.kind, DICT(NODE, vk), s)
        return cm + '\n' + f'{ind}let {v.coq} := py_dict_setitem eqb {v.coq} {kc} {vc} in\n' + cont(env)

    def loop(self, s, rest, env, ctx, ind, cm):
        fn = ctx.fn
        if s.orelse:
            raise Unsupported(s, 'loop with an else clause')
        mut = self.mutated_in(s.body, env)
        for n in mut:
            if n in env and env[n].role == 'func':
                raise Unsupported(s, 'a function name is rebound in a loop')
            if n in fn.cap_ro:
                raise Unsupported(s, f'the captured name {n!r} is assigned')
        state = [n for n in mut if n in env]
        pat = tuple_pat([env[n].coq for n in state])
        init = tuple_val([env[n].coq for n in state])
        i2 = ind + '    '
        sub = ctx.sub(inj='py_in', state=state, in_loop=True,
                      fall=lambda e2, _i: f'Cont {tuple_val([e2[n].coq for n in state])}')
        # Python leaves the loop target bound to the last item after the loop; Coq does not: the names are removed from
        # the environment of the rest (using them there is refused).  A comprehension target does not leak.
        env_after = env
        if isinstance(s, ast.For) and not getattr(s, '_desugared', False):
            tnames = [n.id for n in ast.walk(s.target) if isinstance(n, ast.Name)]
            env_after = {k: v for k, v in env.items() if k not in tnames}
        after = lambda i: f'{i}(fun {pat} =>\n' + self.block(rest, env_after, ctx, i) + ')'
        if isinstance(s, ast.For):
            if getattr(s, 'type_comment', None):
                raise Unsupported(s, 'type comment')
            H = []
            it, ik = self.expr(s.iter, env, H, fn)
            self.check_hoists(s, H, [s.iter])
            if isinstance(s.iter, ast.Name) and s.iter.id in mut:
                raise Unsupported(s, 'the loop body mutates the list it iterates over')
            env_b, tpat = self.bind_target(s.target, self.iter_elem(s.iter, ik), env)
            for n in ([s.target.id] if isinstance(s.target, ast.Name) else [t.id for t in s.target.elts]):
                if n in state:
                    raise Unsupported(s, 'the loop target is a variable that is live before the loop')

            def inner(i):
                body = self.block(s.body, env_b, sub, i + '    ')
                return (f'{i}py_for {ctx.inj} {it} {init} (fun {tpat} {pat} =>\n{body})\n' + after(i))
            return cm + '\n' + self.wrap(H, ctx, ind, inner)
        c, k = self.expr(s.test, env, None, fn)
        self.want(s, k, BOOL)
        body = self.block(s.body, env, sub, i2)
        return (cm + '\n' + f'{ind}py_while {ctx.inj} {fn.fuel_var} (fun {pat} => {c}) {init} (fun {pat} =>\n{body})\n'
                + after(ind))

    # -------------------------------------------------------------------------------------------------------------
    # functions
    def function(self, node, env_outer, outer):
        a = node.args
        if (node.decorator_list or a.vararg or a.kwarg or a.kwonlyargs or a.posonlyargs or a.defaults or a.kw_defaults
                or getattr(node, 'type_params', None)):
            raise Unsupported(node, 'decorators / default values / star or keyword-only parameters')
        is_method = outer is None
        args = list(a.args)
        if is_method:
            if not args or args[0].arg != 'self' or args[0].annotation is not None:
                raise Unsupported(node, 'the first parameter of a method must be self')
            args = args[1:]
        params = []
        for p in args:
            if p.arg == 'self' or p.arg in [q for q, _ in params]:
                raise Unsupported(node, 'parameter named self / duplicated parameter')
            params.append((p.arg, annotation_kind(p.annotation, node)))
        for n in ast.walk(node):
            if isinstance(n, (ast.Global, ast.Nonlocal, ast.Lambda, ast.Yield, ast.YieldFrom, ast.Await, ast.Try,
                              ast.With, ast.ClassDef, ast.AsyncFunctionDef, ast.NamedExpr, ast.Delete, ast.Import,
                              ast.ImportFrom, ast.Starred, ast.AugAssign)):
                raise Unsupported(n, f'unsupported construct {type(n).__name__}')
            if isinstance(n, ast.FunctionDef) and n is not node and not is_method:
                raise Unsupported(n, 'a function nested in a nested function')
        # recursion
        recursive = False
        for n in ast.walk(node):
            if isinstance(n, ast.Call):
                f = n.func
                if not is_method and isinstance(f, ast.Name) and f.id == node.name:
                    recursive = True
                if is_method and isinstance(f, ast.Attribute) and self.is_self(f.value) and f.attr == node.name:
                    recursive = True
        # captured variables of a nested function
        cap_mut, cap_ro = [], []
        if not is_method:
            local = {q for q, _ in params}
            for n in ast.walk(node):
                if isinstance(n, ast.Name) and isinstance(n.ctx, ast.Store):
                    local.add(n.id)
            muts = set()
            for n in ast.walk(node):
                if (isinstance(n, ast.Call) and isinstance(n.func, ast.Attribute) and n.func.attr in MUTATORS
                        and isinstance(n.func.value, ast.Name)):
                    muts.add(n.func.value.id)
                if isinstance(n, ast.Subscript) and isinstance(n.ctx, ast.Store) and isinstance(n.value, ast.Name):
                    muts.add(n.value.id)
            order = []
            skip = set()
            for n in ast.walk(node):
                anns = []
                if isinstance(n, ast.AnnAssign):
                    anns.append(n.annotation)
                if isinstance(n, ast.arg) and n.annotation is not None:
                    anns.append(n.annotation)
                if isinstance(n, ast.FunctionDef) and n.returns is not None:
                    anns.append(n.returns)
                for x in anns:
                    skip.update(id(y) for y in ast.walk(x))
            for n in ast.walk(node):    # breadth first; sorted by position below
                if id(n) in skip:
                    continue
                if isinstance(n, ast.Name) and n.id not in local and n.id not in BUILTINS and n.id not in ('self', node.name):
                    order.append((n.lineno, n.col_offset, n.id))
            for _, _, name in sorted(order):
                if name in EXCEPTIONS or name == 'Node':
                    continue
                if name not in env_outer:
                    raise Unsupported(node, f'the nested function reads {name!r}, which is not defined before it')
                if env_outer[name].role == 'func':
                    raise Unsupported(node, 'a nested function that calls another nested function')
                tgt = cap_mut if name in muts else cap_ro
                if name not in cap_mut + cap_ro:
                    tgt.append(name)
            for name in cap_mut:
                if not env_outer[name].owned:
                    raise Unsupported(node, f'the nested function mutates {name!r}, which does not own its object')
            for name in cap_ro:
                if is_mutable(env_outer[name].kind):
                    raise Unsupported(node, f'the nested function reads the mutable object {name!r}')
        if is_method:
            coq_name, qual = 'gen_' + node.name, node.name
        else:
            coq_name, qual = f'gen_{outer.name}__{node.name.lstrip("_")}', f'{outer.name}.{node.name}'
        info = FuncInfo(qual, coq_name, params, return_annotation_kind(node.returns), cap_mut, cap_ro, recursive,
                        is_method, outer)
        if recursive and info.ret_kind is None:
            raise Unsupported(node, 'a recursive function needs a return annotation the translator understands')
        annotated = info.ret_kind
        info.ret_kind = None if not recursive else annotated
        env = {}
        for n in cap_mut:
            env[n] = Var('v_' + n, env_outer[n].kind, owned=True, role='captured')
        for n in cap_ro:
            env[n] = Var('v_' + n, env_outer[n].kind, owned=False, role='captured')
        for q, k in params:
            env[q] = Var('v_' + q, k, owned=False, role='param')
        if is_method:
            self.funcs[node.name] = info
        else:
            env[node.name] = Var(None, info, role='func')

        def fall(e2, _i):
            info.ret_kind = NONE if info.ret_kind is None else join_kind(info.ret_kind, NONE, node)
            return self.ret(ctx, e2, 'tt')
        ctx = Ctx(info, 'py_top', state=[], in_loop=False, fall=fall)
        ind = '    ' if recursive else '  '
        body = self.block(node.body, env, ctx, ind)
        if info.ret_kind is None:
            raise Unsupported(node, 'no return kind')
        if annotated is not None and annotated[0] != info.ret_kind[0]:
            raise Unsupported(node, f'the return annotation ({annotated[0]}) and the returned values ({info.ret_kind[0]}) disagree')
        rt = coq_type(info.ret_kind)
        if cap_mut:
            rt = '(' + ' * '.join([coq_type(env[n].kind) for n in cap_mut] + [rt]) + ')'
        sig = ''.join(f' (v_{n} : {coq_type(env[n].kind)})' for n in cap_mut + cap_ro)
        sig += ''.join(f' (v_{q} : {coq_type(k)})' for q, k in params)
        end = getattr(node, 'end_lineno', node.lineno)
        where = f'lines {node.lineno}-{end} of causal_graph.py'
        if is_method:
            doc = f'(** [{CLASS}.{node.name}], {where}. *)'
        else:
            doc = (f'(** [{node.name}], nested in [{CLASS}.{outer.name}], {where}.'
                   + (f'\n    Captured and mutated (extra parameter, returned with the result): {", ".join(cap_mut)}.' if cap_mut else '')
                   + (f'\n    Captured, read only (extra parameter): {", ".join(cap_ro)}.' if cap_ro else '') + ' *)')
        if recursive:
            text = (f'{doc}\nFixpoint {coq_name} {GEN_PARAMS}{sig} {{struct fuel}} : pyout ({rt}) :=\n'
                    f"  match fuel with\n  | O => Fuel\n  | S fuel' =>\n{body}\n  end.")
        else:
            text = f'{doc}\nDefinition {coq_name} {GEN_PARAMS}{sig} : pyout ({rt}) :=\n{body}.'
        self.outputs.append(text)
        return info


HEADER = '''(** %(file)s.v -- GENERATED by /verif/tools/translate_traversal.py from
    cai_causal_graph/causal_graph.py, class CausalGraph, methods:
      %(targets)s.
    DO NOT EDIT: the file is regenerated on every verification run.  One Gallina function per Python function, statement by statement
    (the comments quote the first line of each Python statement); the runtime is PyRt.v + PyRtLoop.v, whose
    headers document the mapping.  Every function takes the same leading parameters: the equality test on
    identifiers, the fuel (one unit per evaluation of a while condition / per entry of a recursive function;
    [Fuel] when it runs out) and [v_self], the graph as these methods see it ([pygraph A]). *)
From CG Require Import Base Digraph Markov PyRt PyRtLoop.
'''

STUB = '''(** %(file)s.v -- NOT GENERATED: /verif/tools/translate_traversal.py refused the source.
    %(why)s
    This file deliberately does not compile. *)
Definition translator_failed : False := I.
'''


def find_class(src, path):
    tree = ast.parse(src, filename=path)
    classes = [n for n in tree.body if isinstance(n, ast.ClassDef) and n.name == CLASS]
    if len(classes) != 1:
        raise Unsupported(tree.body[0] if tree.body else None, f'expected exactly one class {CLASS} at module level')
    return classes[0]


def translate_group(cls, src, fname, targets):
    tr = Translator(cls, src.splitlines())
    for name in targets:
        defs = [n for n in cls.body if isinstance(n, (ast.FunctionDef, ast.AsyncFunctionDef)) and n.name == name]
        if len(defs) != 1 or not isinstance(defs[0], ast.FunctionDef):
            raise Unsupported(cls, f'expected exactly one plain method {name} in class {CLASS}')
        # a later assignment in the class body could replace the method
        for n in cls.body:
            if isinstance(n, (ast.Assign, ast.AnnAssign)) and name in names_in(n):
                raise Unsupported(n, f'class-level assignment mentioning {name}')
        tr.function(defs[0], {}, None)
    text = HEADER % {'file': fname, 'targets': ', '.join(targets)} + '\n' + '\n\n'.join(tr.outputs) + '\n'
    if len(text) > MAX_OUTPUT_CHARS:
        raise Unsupported(cls, 'the generated text is too large')
    return text


def clean(msg):
    return msg.replace('*)', '* )').replace('(*', '( *')


def write_if_changed(out, text):
    # the file on disk is replaced only when its content differs (an unchanged source does not force recompilation)
    if os.path.exists(out):
        with open(out, 'r', encoding='utf-8') as fh:
            if fh.read() == text:
                return
    tmp = out + '.tmp'
    with open(tmp, 'w', encoding='utf-8') as fh:
        fh.write(text)
    os.replace(tmp, out)


def main(argv):
    if len(argv) > 3:
        sys.stderr.write('usage: translate_traversal.py [<repo_root> [<output_dir>]]\n')
        return 2
    root = argv[1] if len(argv) > 1 else os.environ.get('VERIF_REPO', '/repo')
    here = os.path.dirname(os.path.abspath(__file__))
    outdir = argv[2] if len(argv) > 2 else os.path.join(os.path.dirname(here), 'coq', 'theories')
    if not os.path.isdir(outdir):
        sys.stderr.write(f'translate_traversal: FAIL: {outdir} is not a directory\n')
        return 2
    for st in STALE:
        if os.path.exists(os.path.join(outdir, st)):
            os.remove(os.path.join(outdir, st))
    path = os.path.join(root, SOURCE)
    status, cls, src, module_failure = 0, None, None, None
    try:
        with open(path, 'r', encoding='utf-8') as fh:
            src = fh.read()
        cls = find_class(src, path)
    except Unsupported as ex:
        module_failure = f'{path}:{ex}'
    except (OSError, SyntaxError, RecursionError, ValueError) as ex:
        module_failure = f'{path}: {type(ex).__name__}: {ex}'
    for fname, targets in FILES:
        why = module_failure
        text = None
        if why is None:
            try:
                text = translate_group(cls, src, fname, targets)
            except Unsupported as ex:
                why = f'{path}:{ex}'
            except (RecursionError, ValueError, KeyError, AttributeError, TypeError, IndexError) as ex:
                why = f'{path}: internal {type(ex).__name__}: {ex}'
        if why is not None:
            sys.stderr.write(f'translate_traversal: FAIL: {why} [{fname}.v is a stub that does not compile]\n')
            text, status = STUB % {'file': fname, 'why': clean(why)}, 2
        write_if_changed(os.path.join(outdir, fname + '.v'), text)
    return status


if __name__ == '__main__':
    sys.exit(main(sys.argv))
