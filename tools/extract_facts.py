#!/usr/bin/env python3
"""extract_facts.py -- FAIL-CLOSED extractor of the cache-reset facts of cai-causal-graph (property C04).

usage:  extract_facts.py [REPO_ROOT=/repo] [OUTPUT=/verif/coq/theories/Extracted.v]

Reads (with `ast` only -- repository code is never imported or executed)

    REPO_ROOT/cai_causal_graph/causal_graph.py
    REPO_ROOT/cai_causal_graph/time_series_causal_graph.py
    REPO_ROOT/cai_causal_graph/graph_components.py
    REPO_ROOT/cai_causal_graph/type_definitions.py
    REPO_ROOT/cai_causal_graph/interfaces.py          (only scanned for forbidden attribute names)

and writes plain Coq tables (strings, booleans, lists) to OUTPUT.  The side conditions of the cache-coherence
meta-theorem (coq/theories/Cache.v) are then decided on these tables BY COMPUTATION in coq/theories/Facts.v.

FAIL CLOSED: whenever the source contains a construct that this tool cannot classify with certainty, it prints
`extract_facts: FAIL: <reason>` on stderr and exits with status 2 WITHOUT writing OUTPUT.  Conditions that are
*classifiable* but wrong (a writer without the decorator, a memo field that is not reset, ...) are NOT rejected
here: they are written to the tables faithfully and make Facts.v fail to compile.

What is extracted, per class C in {CausalGraph, TimeSeriesCausalGraph}
  methods_C            (name, public, decorated, writes core state directly, self./super(). references)
  method_kinds_C       (name, "instance" | "property" | "classmethod" | "staticmethod")
  bases_C              the base class names, in source order
  reset_fields_C       attributes assigned None in C._reset_cached_attributes
  reset_calls_super_C  whether C._reset_cached_attributes calls super()._reset_cached_attributes()
  memo_fields_C        every self._x tested `self._x is [not] None` and assigned in the same method
  memo_returns_C       (method, field, "raw" | "copy" | "deepcopy") for each return of a memo field
  init_none_fields_C   attributes assigned None in C.__init__
  other_self_attrs_C   every other self.<attr> that is neither a method, a core attribute nor a cache attribute
  self_escapes_C       (method, callee) for each call that receives the bare object `self` as an argument
plus memo_fields_Skeleton, edge_type_values, dont_care_direction.

Definitions used
  public   : the name does not start with '_', or it is a dunder method other than __init__ (dunder methods are
             reachable through syntax: g[x], g == h, copy(g), ...).
  writes core state directly : see `MethodScan` below.  Receivers are treated syntactically and conservatively by
             a three-level classification of expressions and local names (`level`): ALIAS (may be a core container
             or a part of one), HOLDS (a fresh container whose elements may be), CLEAN.  Local names get their level
             from =, augmented =, :=, for, with, comprehensions, `local.append(x)` and `local[k] = x`, to a fixpoint.
  references : every `self.<name>(...)` call, every `self.<name>` load where <name> is a method/property of one of
             the two classes (properties and bound-method values count as calls), and every `super(...).<name>`,
             the latter spelled "super().<name>".
Residual trust (not checked here): Python semantics of the constructs that ARE classified, and flows of core
containers through return values of self-calls (node/edge objects obtained that way are still covered because
`.meta = `, `.variable_type = `, `invalidate()`, `_add/_delete_in/outbound_edge()` are flagged on ANY receiver).
"""
import ast
import copy
import hashlib
import os
import sys

CORE_ATTRS = frozenset(
    ['_nodes_by_identifier', '_edges_by_source', '_edges_by_destination', '_lag_to_nodes', '_variable_name_to_nodes']
)
OBJECT_MUTATORS = frozenset(
    ['_add_inbound_edge', '_add_outbound_edge', '_delete_inbound_edge', '_delete_outbound_edge', 'invalidate']
)
OBJECT_ATTR_STORES = frozenset(['meta', 'variable_type'])
CONTAINER_MUTATORS = frozenset(
    [
        'pop', 'popitem', 'append', 'extend', 'insert', 'remove', 'clear', 'update', 'setdefault', 'sort',
        'reverse', 'add', 'discard', 'move_to_end', 'difference_update', 'intersection_update',
        'symmetric_difference_update', '__setitem__', '__delitem__', '__ior__', '__iadd__',
    ]
)  # fmt: skip
# callees that may receive a core container as an argument without being able to change it
PURE_CALLEES = frozenset(
    ['len', 'list', 'sorted', 'set', 'frozenset', 'tuple', 'dict', 'iter', 'enumerate', 'zip', 'any', 'all',
     'isinstance', 'reversed', 'sum', 'min', 'max', 'bool', 'str', 'repr', 'deepcopy']
)  # fmt: skip
KNOWN_DECORATORS = frozenset(['property', 'staticmethod', 'classmethod', 'reset_cached_attributes_decorator'])
RESET_DECORATOR = 'reset_cached_attributes_decorator'
RESET_METHOD = '_reset_cached_attributes'
ALLOWED_CLASS_CONSTANTS = frozenset(['_NodeCls', '_EdgeCls', '_SummaryGraphCls'])
FORBIDDEN_NAMES = frozenset(
    ['setattr', 'delattr', 'getattr', 'vars', 'globals', 'locals', 'exec', 'eval', '__dict__', '__setattr__',
     '__delattr__', '__getattribute__', '__getattr__', '__slots__', '__class_getitem__', '__init_subclass__',
     '__new__', '__set_name__', '__reduce__', '__reduce_ex__', '__setstate__', '__getstate__']
)  # fmt: skip

EXPECTED_DECORATOR_SOURCE = '''
def reset_cached_attributes_decorator(func: Callable) -> Callable:
    @wraps(func)
    def wrapper(self: CausalGraph, *args, **kwargs) -> Any:
        function = func(self, *args, **kwargs)
        self._reset_cached_attributes()
        return function

    return wrapper
'''


class Fail(Exception):
    pass


def fail(msg, node=None, fname=None):
    where = ''
    if fname is not None:
        where = fname
        if node is not None and hasattr(node, 'lineno'):
            where += ':%d' % node.lineno
        where += ': '
    raise Fail(where + msg)


# ----------------------------------------------------------------------------------------------------------------
# generic helpers
# ----------------------------------------------------------------------------------------------------------------


def strip_docstrings(tree):
    """Remove docstrings in place (so that two ASTs can be compared structurally)."""
    for node in ast.walk(tree):
        if isinstance(node, (ast.FunctionDef, ast.ClassDef, ast.AsyncFunctionDef, ast.Module)):
            body = node.body
            if (
                body
                and isinstance(body[0], ast.Expr)
                and isinstance(body[0].value, ast.Constant)
                and isinstance(body[0].value.value, str)
            ):
                node.body = body[1:] or [ast.Pass()]
    return tree


def is_self(node):
    return isinstance(node, ast.Name) and node.id == 'self'


def is_self_attr(node):
    return isinstance(node, ast.Attribute) and is_self(node.value)


def is_super_call(node):
    return isinstance(node, ast.Call) and isinstance(node.func, ast.Name) and node.func.id == 'super'


def is_none(node):
    return isinstance(node, ast.Constant) and node.value is None


def chain_nodes(expr):
    """The receiver chain of an expression: a[b].c(d).e  ->  [a[b].c(d).e, a[b].c(d), a[b].c, a[b], a]."""
    out = []
    while True:
        out.append(expr)
        if isinstance(expr, (ast.Subscript, ast.Attribute, ast.Starred)):
            expr = expr.value
        elif isinstance(expr, ast.Call):
            expr = expr.func
        else:
            return out


CLEAN, HOLDS, ALIAS = 0, 1, 2
# builders of FRESH containers: the result is a new object that merely HOLDS its elements
FRESH_BUILDERS = frozenset(
    ['list', 'sorted', 'set', 'frozenset', 'tuple', 'dict', 'enumerate', 'zip', 'map', 'filter', 'reversed', 'iter']
)
# callees whose result can never alias core state
CLEAN_RESULTS = frozenset(['len', 'isinstance', 'bool', 'str', 'repr', 'any', 'all', 'deepcopy', 'hash', 'id', 'type'])
# attributes of a core container that may be handed to somebody else (bound read-only methods)
READ_ONLY_METHODS = frozenset(['__getitem__', 'get', '__contains__', 'keys', 'values', 'items', '__len__', '__iter__'])


def level(expr, env):
    """Conservative syntactic classification of what an expression may denote:
    ALIAS -- (part of) a core container itself;  HOLDS -- a fresh container whose ELEMENTS may be core containers;
    CLEAN -- neither.  `env` maps local names to levels."""
    if expr is None:
        return CLEAN
    if isinstance(expr, ast.Attribute):
        if expr.attr in CORE_ATTRS:
            return ALIAS
        return ALIAS if level(expr.value, env) != CLEAN else CLEAN
    if isinstance(expr, ast.Name):
        return env.get(expr.id, CLEAN)
    if isinstance(expr, (ast.Subscript, ast.Starred)):
        return ALIAS if level(expr.value, env) != CLEAN else CLEAN
    if isinstance(expr, ast.Constant):
        return CLEAN
    if isinstance(expr, (ast.Compare, ast.JoinedStr)):
        return CLEAN
    if isinstance(expr, ast.UnaryOp) and isinstance(expr.op, ast.Not):
        return CLEAN
    sub = [level(c, env) for c in ast.iter_child_nodes(expr) if isinstance(c, ast.expr)]
    if isinstance(expr, (ast.ListComp, ast.SetComp, ast.DictComp, ast.GeneratorExp)):
        # generators bind their own names; be conservative: anything mentioned anywhere inside counts
        inner = CLEAN
        for n in ast.walk(expr):
            if isinstance(n, ast.Attribute) and n.attr in CORE_ATTRS:
                inner = ALIAS
            if isinstance(n, ast.Name) and env.get(n.id, CLEAN) != CLEAN:
                inner = ALIAS
        return HOLDS if inner != CLEAN else CLEAN
    worst = max(sub) if sub else CLEAN
    if isinstance(expr, (ast.List, ast.Tuple, ast.Set, ast.Dict)):
        return HOLDS if worst != CLEAN else CLEAN
    if isinstance(expr, ast.Call):
        args = [level(a, env) for a in list(expr.args) + [k.value for k in expr.keywords]]
        worst_arg = max(args) if args else CLEAN
        if isinstance(expr.func, ast.Name):
            if expr.func.id in CLEAN_RESULTS:
                return CLEAN
            if expr.func.id in FRESH_BUILDERS:
                return HOLDS if worst_arg != CLEAN else CLEAN
            return ALIAS if worst_arg != CLEAN else CLEAN
        if isinstance(expr.func, ast.Attribute):
            recv = level(expr.func.value, env)
            return ALIAS if max(recv, worst_arg) != CLEAN else CLEAN
        return ALIAS if worst != CLEAN else CLEAN
    if isinstance(expr, (ast.IfExp, ast.BoolOp, ast.BinOp, ast.NamedExpr, ast.Await)):
        return worst
    return ALIAS if worst != CLEAN else CLEAN


def core_rooted(expr, env, direct_only=False):
    """May `expr` denote (part of) a core container?  With direct_only, only syntactically core-rooted chains."""
    if direct_only:
        return any(isinstance(n, ast.Attribute) and n.attr in CORE_ATTRS for n in chain_nodes(expr))
    return level(expr, env) == ALIAS


def target_names(target):
    return [n.id for n in ast.walk(target) if isinstance(n, ast.Name) and isinstance(n.ctx, (ast.Store, ast.Del))]


def callee_name(call):
    f = call.func
    if isinstance(f, ast.Name):
        return f.id
    if isinstance(f, ast.Attribute):
        return f.attr
    return None


# ----------------------------------------------------------------------------------------------------------------
# per-method scan
# ----------------------------------------------------------------------------------------------------------------


class MethodScan:
    """Everything we need to know about one method body.

    writes_direct is True when the body contains
      * a store / augmented store / delete whose target is `<x>.<core attr>` itself, or a subscript/attribute
        reached from a core attribute or from a local name of level ALIAS (`self._edges_by_source[s][d] = e`,
        `del self._lag_to_nodes[k]`, `for src, inner in self._edges_by_source.items(): inner[k] = v`);
      * a call of a container-mutating method (CONTAINER_MUTATORS) on such a receiver
        (`self._edges_by_source[s].pop(d)`, `self._lag_to_nodes[l].append(n)`);
      * a call of `_add_inbound_edge/_add_outbound_edge/_delete_inbound_edge/_delete_outbound_edge/invalidate`
        on ANY receiver;
      * a store to `<anything>.meta` or `<anything>.variable_type`.
    """

    def __init__(self, fname, cls_name, func, all_method_names):
        self.fname = fname
        self.cls_name = cls_name
        self.func = func
        self.name = func.name
        self.all_method_names = all_method_names
        self.kind = 'instance'
        self.decorated = False
        self.writes_direct = False
        self.write_reasons = []
        self.refs = set()
        self.self_attr_loads = {}  # attr -> [nodes]
        self.self_attr_stores = {}  # attr -> [(node, value or None)]
        self.foreign_attr_stores = []  # (attr, node) stores to <not self>.<attr>
        self.none_tests = set()  # attrs x tested `self.x is None` / `self.x is not None`
        self.self_escapes = set()  # callee names receiving bare `self`
        self._scan()

    def fail(self, msg, node=None):
        fail('%s.%s: %s' % (self.cls_name, self.name, msg), node if node is not None else self.func, self.fname)

    # -- decorators and signature ------------------------------------------------------------------------------
    def _scan_header(self):
        f = self.func
        decos = []
        for d in f.decorator_list:
            if not isinstance(d, ast.Name) or d.id not in KNOWN_DECORATORS:
                self.fail('unknown decorator `%s`' % ast.unparse(d), d)
            decos.append(d.id)
        if len(set(decos)) != len(decos):
            self.fail('repeated decorator')
        self.decorated = RESET_DECORATOR in decos
        others = [d for d in decos if d != RESET_DECORATOR]
        if len(others) > 1:
            self.fail('cannot classify decorator stack %s' % decos)
        if others:
            self.kind = others[0]
        if self.decorated and others:
            self.fail('reset decorator combined with %s' % others)
        args = f.args
        positional = list(args.posonlyargs) + list(args.args)
        if self.kind in ('instance', 'property'):
            if not positional or positional[0].arg != 'self':
                self.fail('first parameter of an instance method is not `self`')
        elif self.kind == 'classmethod':
            if not positional or positional[0].arg != 'cls':
                self.fail('first parameter of a classmethod is not `cls`')
        all_params = positional[1:] if self.kind != 'staticmethod' else positional
        all_params = all_params + list(args.kwonlyargs) + [a for a in (args.vararg, args.kwarg) if a is not None]
        if any(a.arg == 'self' for a in all_params):
            self.fail('`self` is rebound by a parameter')

    # -- taint: local names that may alias (part of) the core state ----------------------------------------------
    def _compute_taint(self):
        env = {}
        changed = True

        def bind(target, lvl, unpack):
            nonlocal changed
            if lvl == CLEAN:
                return
            if isinstance(target, ast.Name):
                new = ALIAS if unpack else lvl
            else:  # tuple / list / starred / attribute / subscript targets: every name inside may get an element
                new = ALIAS
            for name in target_names(target):
                if env.get(name, CLEAN) < new:
                    env[name] = new
                    changed = True

        while changed:
            changed = False
            for n in ast.walk(self.func):
                if isinstance(n, ast.Assign):
                    for t in n.targets:
                        bind(t, level(n.value, env), False)
                elif isinstance(n, ast.AnnAssign) and n.value is not None:
                    bind(n.target, level(n.value, env), False)
                elif isinstance(n, ast.AugAssign):
                    bind(n.target, level(n.value, env), False)
                elif isinstance(n, ast.NamedExpr):
                    bind(n.target, level(n.value, env), False)
                elif isinstance(n, (ast.For, ast.AsyncFor)):
                    bind(n.target, level(n.iter, env), True)
                elif isinstance(n, ast.comprehension):
                    bind(n.target, level(n.iter, env), True)
                elif isinstance(n, (ast.With, ast.AsyncWith)):
                    for i in n.items:
                        if i.optional_vars is not None:
                            bind(i.optional_vars, level(i.context_expr, env), False)
                elif (
                    isinstance(n, ast.Call)
                    and isinstance(n.func, ast.Attribute)
                    and n.func.attr in CONTAINER_MUTATORS
                    and isinstance(n.func.value, ast.Name)
                ):
                    # local.append(x), local.update(x), ...: the local container now HOLDS x
                    args = [level(a, env) for a in list(n.args) + [k.value for k in n.keywords]]
                    if args and max(args) != CLEAN and env.get(n.func.value.id, CLEAN) < HOLDS:
                        env[n.func.value.id] = HOLDS
                        changed = True
                if isinstance(n, (ast.Assign, ast.AugAssign, ast.AnnAssign)) and getattr(n, 'value', None) is not None:
                    # local[k] = x, local[k][j] = x: the local container now HOLDS x
                    targets = n.targets if isinstance(n, ast.Assign) else [n.target]
                    for t in targets:
                        for sub in ast.walk(t):
                            if isinstance(sub, ast.Subscript) and isinstance(sub.ctx, ast.Store):
                                root = chain_nodes(sub)[-1]
                                if isinstance(root, ast.Name) and level(n.value, env) != CLEAN:
                                    if env.get(root.id, CLEAN) < HOLDS:
                                        env[root.id] = HOLDS
                                        changed = True
        return env

    # -- main walk -----------------------------------------------------------------------------------------------
    def _scan(self):
        self._scan_header()
        f = self.func
        tainted = self._compute_taint()
        self.tainted = tainted

        def wrote(reason, node):
            self.writes_direct = True
            self.write_reasons.append('%d:%s' % (getattr(node, 'lineno', 0), reason))

        # parent map for the classification of bare `self`
        parents = {}
        for n in ast.walk(f):
            for c in ast.iter_child_nodes(n):
                parents[c] = n

        # value of each self.<attr> store (None when it is not a plain single assignment)
        plain_store_value = {}
        for n in ast.walk(f):
            if isinstance(n, ast.Assign) and len(n.targets) == 1 and is_self_attr(n.targets[0]):
                plain_store_value[n.targets[0]] = n.value
            elif isinstance(n, ast.AnnAssign) and is_self_attr(n.target) and n.value is not None:
                plain_store_value[n.target] = n.value

        for n in ast.walk(f):
            # nested scopes must not rebind self
            if n is not f and isinstance(n, (ast.FunctionDef, ast.AsyncFunctionDef, ast.Lambda)):
                a = n.args
                names = [x.arg for x in list(a.posonlyargs) + list(a.args) + list(a.kwonlyargs)]
                names += [x.arg for x in (a.vararg, a.kwarg) if x is not None]
                if 'self' in names:
                    self.fail('nested function rebinds `self`', n)
            if isinstance(n, ast.ClassDef):
                self.fail('class definition inside a method', n)
            if isinstance(n, (ast.Global, ast.Nonlocal)) and 'self' in n.names:
                self.fail('global/nonlocal self', n)
            if isinstance(n, ast.Name):
                if n.id in FORBIDDEN_NAMES:
                    self.fail('use of `%s` (reflection cannot be classified)' % n.id, n)
                if n.id == 'self' and isinstance(n.ctx, (ast.Store, ast.Del)):
                    self.fail('`self` is rebound', n)
                if n.id == 'self' and isinstance(n.ctx, ast.Load):
                    self._classify_bare_self(n, parents)
            if isinstance(n, ast.Attribute):
                if n.attr in FORBIDDEN_NAMES:
                    self.fail('use of `.%s` (reflection cannot be classified)' % n.attr, n)
                if isinstance(n.ctx, (ast.Store, ast.Del)):
                    if n.attr in CORE_ATTRS:
                        wrote('store to .%s' % n.attr, n)
                    elif n.attr in OBJECT_ATTR_STORES:
                        wrote('store to .%s of an object' % n.attr, n)
                    elif core_rooted(n.value, tainted):
                        wrote('attribute store below core state', n)
                    if is_self(n.value):
                        self.self_attr_stores.setdefault(n.attr, []).append((n, plain_store_value.get(n)))
                    else:
                        self.foreign_attr_stores.append((n.attr, n))
                else:
                    if is_self(n.value):
                        self.self_attr_loads.setdefault(n.attr, []).append(n)
                        if n.attr in self.all_method_names:
                            self.refs.add(n.attr)
                    elif is_super_call(n.value):
                        self.refs.add('super().' + n.attr)
            if isinstance(n, ast.Subscript) and isinstance(n.ctx, (ast.Store, ast.Del)):
                if core_rooted(n.value, tainted):
                    wrote('subscript store/delete below core state', n)
            if isinstance(n, ast.Call):
                if isinstance(n.func, ast.Attribute):
                    attr = n.func.attr
                    if is_self(n.func.value):
                        self.refs.add(attr)
                    if attr in OBJECT_MUTATORS:
                        wrote('call of .%s()' % attr, n)
                    elif attr in CONTAINER_MUTATORS and core_rooted(n.func.value, tainted):
                        wrote('call of .%s() below core state' % attr, n)
                elif is_super_call(n):
                    pass
                # a core container handed to somebody else
                cname = callee_name(n)
                for a in list(n.args) + [k.value for k in n.keywords]:
                    if isinstance(a, ast.Call) or not core_rooted(a, tainted, direct_only=True):
                        continue
                    if isinstance(a, ast.Attribute) and a.attr not in CORE_ATTRS:
                        # a bound method of a core container: only read-only ones may be passed around
                        if a.attr in READ_ONLY_METHODS and isinstance(n.func, ast.Name) and cname in FRESH_BUILDERS:
                            continue
                    elif isinstance(n.func, ast.Name) and cname in PURE_CALLEES:
                        continue
                    elif (
                        isinstance(n.func, ast.Attribute)
                        and cname in CONTAINER_MUTATORS
                        and isinstance(n.func.value, ast.Name)
                        and not is_self(n.func.value)
                    ):
                        continue  # stored into a local container: tracked by the HOLDS level of that local
                    self.fail(
                        'core container `%s` escapes into call of `%s`' % (ast.unparse(a), ast.unparse(n.func)), n
                    )
            if isinstance(n, ast.Compare) and len(n.ops) == 1 and isinstance(n.ops[0], (ast.Is, ast.IsNot)):
                if is_self_attr(n.left) and is_none(n.comparators[0]):
                    self.none_tests.add(n.left.attr)
            if isinstance(n, (ast.Return, ast.Yield, ast.YieldFrom)) and n.value is not None:
                v = n.value
                if isinstance(v, ast.Attribute) and v.attr in CORE_ATTRS:
                    self.fail('core container `%s` is returned' % ast.unparse(v), n)
        if self.kind in ('classmethod', 'staticmethod'):
            # no instance: any use of the name `self` would be something we do not understand
            for n in ast.walk(f):
                if isinstance(n, ast.Name) and n.id == 'self':
                    self.fail('`self` used in a %s' % self.kind, n)

    def _classify_bare_self(self, n, parents):
        p = parents.get(n)
        if isinstance(p, ast.Attribute) and p.value is n:
            return  # self.<attr>
        if isinstance(p, ast.Compare):
            return  # self == other, other == self, x is self
        if isinstance(p, ast.keyword):
            p = parents.get(p)
        if isinstance(p, ast.Call) and n is not p.func:
            cname = callee_name(p)
            if cname is None:
                self.fail('`self` passed to an unnamed callee', n)
            self.self_escapes.add(cname)
            return
        self.fail('bare `self` used in a way that cannot be classified (%s)' % type(p).__name__, n)


# ----------------------------------------------------------------------------------------------------------------
# per-class scan
# ----------------------------------------------------------------------------------------------------------------


def find_class(tree, name, fname):
    found = [n for n in ast.walk(tree) if isinstance(n, ast.ClassDef) and n.name == name]
    top = [n for n in tree.body if isinstance(n, ast.ClassDef) and n.name == name]
    if len(found) != 1 or len(top) != 1:
        fail('expected exactly one top-level class %s' % name, None, fname)
    cls = top[0]
    if cls.decorator_list or cls.keywords:
        fail('class %s has decorators or keywords (metaclass?)' % name, cls, fname)
    # the class name must not be rebound at module level
    for n in ast.walk(tree):
        if isinstance(n, ast.Name) and n.id == name and isinstance(n.ctx, (ast.Store, ast.Del)):
            fail('class name %s is rebound' % name, n, fname)
    bases = []
    for b in cls.bases:
        if not isinstance(b, ast.Name):
            fail('base class of %s is not a plain name' % name, b, fname)
        bases.append(b.id)
    return cls, bases


def class_functions(cls, fname, allow_plain_assign=False):
    funcs = {}
    for st in cls.body:
        if isinstance(st, ast.Expr) and isinstance(st.value, ast.Constant) and isinstance(st.value.value, str):
            continue
        if isinstance(st, ast.AnnAssign):
            if not isinstance(st.target, ast.Name):
                fail('class-level annotated assignment to a non-name in %s' % cls.name, st, fname)
            if st.value is None:
                continue
            if st.target.id in ALLOWED_CLASS_CONSTANTS and isinstance(st.value, ast.Name):
                continue
            fail('class-level assignment `%s` in %s cannot be classified' % (ast.unparse(st)[:60], cls.name), st, fname)
        if isinstance(st, ast.FunctionDef):
            if st.name in funcs:
                fail('method %s.%s defined twice' % (cls.name, st.name), st, fname)
            if st.name in FORBIDDEN_NAMES:
                fail('%s defines the reflection hook %s' % (cls.name, st.name), st, fname)
            funcs[st.name] = st
            continue
        if isinstance(st, ast.Pass):
            continue
        if allow_plain_assign and isinstance(st, ast.Assign):
            continue
        fail('class-level statement of kind %s in %s cannot be classified' % (type(st).__name__, cls.name), st, fname)
    return funcs


def is_public(name):
    if not name.startswith('_'):
        return True
    return name.startswith('__') and name.endswith('__') and name != '__init__'


class ClassScan:
    def __init__(self, fname, tree, cls_name):
        self.fname = fname
        self.cls_name = cls_name
        self.cls, self.bases = find_class(tree, cls_name, fname)
        self.funcs = class_functions(self.cls, fname)
        self.method_names = set(self.funcs)
        self.scans = {}

    def scan_methods(self, all_method_names):
        for name, f in self.funcs.items():
            self.scans[name] = MethodScan(self.fname, self.cls_name, f, all_method_names)

    # -- _reset_cached_attributes ----------------------------------------------------------------------------------
    def reset_info(self):
        if RESET_METHOD not in self.funcs:
            return None
        f = self.funcs[RESET_METHOD]
        sc = self.scans[RESET_METHOD]
        if sc.kind != 'instance' or sc.decorated:
            sc.fail('must be a plain instance method')
        a = f.args
        if len(a.args) != 1 or a.posonlyargs or a.kwonlyargs or a.vararg or a.kwarg or a.defaults:
            sc.fail('must take exactly (self)')
        fields, calls_super = [], False
        for i, st in enumerate(f.body):
            if i == 0 and isinstance(st, ast.Expr) and isinstance(st.value, ast.Constant) and isinstance(st.value.value, str):
                continue
            if isinstance(st, ast.Assign) and len(st.targets) == 1 and is_self_attr(st.targets[0]) and is_none(st.value):
                fields.append(st.targets[0].attr)
                continue
            if (
                isinstance(st, ast.Expr)
                and isinstance(st.value, ast.Call)
                and isinstance(st.value.func, ast.Attribute)
                and st.value.func.attr == RESET_METHOD
                and is_super_call(st.value.func.value)
                and not st.value.func.value.args
                and not st.value.func.value.keywords
                and not st.value.args
                and not st.value.keywords
            ):
                if calls_super:
                    sc.fail('super()._reset_cached_attributes() called twice', st)
                calls_super = True
                continue
            sc.fail('statement `%s` is neither `self._x = None` nor `super().%s()`' % (ast.unparse(st)[:60], RESET_METHOD), st)
        if len(set(fields)) != len(fields):
            sc.fail('a field is reset twice')
        return fields, calls_super

    # -- __init__ ----------------------------------------------------------------------------------------------------
    def init_none_fields(self):
        if '__init__' not in self.scans:
            return []
        out = []
        for attr, stores in self.scans['__init__'].self_attr_stores.items():
            if any(v is not None and is_none(v) for (_, v) in stores):
                out.append(attr)
        return out

    # -- memo fields ---------------------------------------------------------------------------------------------------
    def memo_fields(self):
        """{field: set(reader method names)}"""
        out = {}
        for name, sc in self.scans.items():
            if name in ('__init__', RESET_METHOD):
                continue
            for attr in sc.none_tests:
                if attr in sc.self_attr_stores:
                    out.setdefault(attr, set()).add(name)
        return out


def memo_returns(sc, field):
    """Classify every `return` of the reader `sc` that hands out the cached attribute `field`."""
    alias_names = set()
    for node, value in sc.self_attr_stores.get(field, []):
        if value is None:
            sc.fail('cache attribute %s is assigned in a form that cannot be classified' % field, node)
        if isinstance(value, ast.Name):
            alias_names.add(value.id)
    kinds = set()
    n_returns = 0
    for n in ast.walk(sc.func):
        if not isinstance(n, ast.Return) or n.value is None:
            continue
        v = n.value
        mentions = any(is_self_attr(x) and x.attr == field for x in ast.walk(v))
        if is_self_attr(v) and v.attr == field:
            kinds.add('raw')
        elif isinstance(v, ast.Name) and v.id in alias_names:
            kinds.add('raw')
        elif (
            isinstance(v, ast.Call)
            and isinstance(v.func, ast.Name)
            and v.func.id == 'deepcopy'
            and len(v.args) == 1
            and not v.keywords
            and is_self_attr(v.args[0])
            and v.args[0].attr == field
        ):
            kinds.add('deepcopy')
        elif (
            isinstance(v, ast.Call)
            and isinstance(v.func, ast.Attribute)
            and v.func.attr == 'copy'
            and is_self_attr(v.func.value)
            and v.func.value.attr == field
            and not v.args
            and not v.keywords
        ):
            kinds.add('copy')
        elif mentions or any(isinstance(x, ast.Name) and x.id in alias_names for x in ast.walk(v)):
            sc.fail('return of cache attribute %s in a form that cannot be classified' % field, n)
        else:
            continue
        n_returns += 1
    if n_returns == 0:
        sc.fail('memo reader never returns its cache attribute %s' % field)
    return kinds


# ----------------------------------------------------------------------------------------------------------------
# module-level checks
# ----------------------------------------------------------------------------------------------------------------


def check_decorator(cg_tree, ts_tree, cg_name, ts_name):
    defs = [n for n in ast.walk(cg_tree) if isinstance(n, ast.FunctionDef) and n.name == RESET_DECORATOR]
    top = [n for n in cg_tree.body if isinstance(n, ast.FunctionDef) and n.name == RESET_DECORATOR]
    if len(defs) != 1 or len(top) != 1:
        fail('expected exactly one top-level def of %s' % RESET_DECORATOR, None, cg_name)
    actual = ast.parse(ast.unparse(top[0]))
    expected = ast.parse(EXPECTED_DECORATOR_SOURCE)
    if ast.dump(strip_docstrings(actual)) != ast.dump(strip_docstrings(expected)):
        fail('%s does not have the expected shape (call, then reset, then return)' % RESET_DECORATOR, top[0], cg_name)
    # `wraps` must be functools.wraps
    ok = False
    for n in cg_tree.body:
        if isinstance(n, ast.ImportFrom) and n.module == 'functools' and n.level == 0:
            for a in n.names:
                if a.name == 'wraps' and a.asname in (None, 'wraps'):
                    ok = True
    if not ok:
        fail('`wraps` is not imported from functools', None, cg_name)
    # no other binding of the decorator name / of wraps anywhere in the two modules
    for tree, fname, is_def_module in ((cg_tree, cg_name, True), (ts_tree, ts_name, False)):
        imports = 0
        for n in ast.walk(tree):
            for watched in (RESET_DECORATOR, 'wraps'):
                if isinstance(n, ast.Name) and n.id == watched and isinstance(n.ctx, (ast.Store, ast.Del)):
                    fail('%s is rebound' % watched, n, fname)
                if isinstance(n, (ast.FunctionDef, ast.ClassDef, ast.AsyncFunctionDef)) and n.name == watched:
                    if not (is_def_module and n is top[0]):
                        fail('%s is redefined' % watched, n, fname)
                if isinstance(n, ast.arg) and n.arg == watched:
                    fail('%s is shadowed by a parameter' % watched, n, fname)
                if isinstance(n, (ast.Import, ast.ImportFrom)):
                    for a in n.names:
                        bound = a.asname or a.name
                        if bound == watched:
                            if (
                                watched == RESET_DECORATOR
                                and not is_def_module
                                and isinstance(n, ast.ImportFrom)
                                and n.module == 'cai_causal_graph.causal_graph'
                                and n.level == 0
                                and a.name == RESET_DECORATOR
                                and n in tree.body
                            ):
                                imports += 1
                            elif (
                                watched == 'wraps'
                                and isinstance(n, ast.ImportFrom)
                                and n.module == 'functools'
                                and a.name == 'wraps'
                                and n in tree.body
                            ):
                                pass
                            else:
                                fail('%s is bound by an unexpected import' % watched, n, fname)
        if not is_def_module and imports != 1:
            fail('%s is not imported exactly once from cai_causal_graph.causal_graph' % RESET_DECORATOR, None, fname)


def check_module_level(tree, fname, class_names):
    """Nothing at module level may patch the classes (e.g. `CausalGraph.delete_edge = f`)."""
    for n in ast.walk(tree):
        if isinstance(n, ast.Attribute) and isinstance(n.ctx, (ast.Store, ast.Del)):
            if isinstance(n.value, ast.Name) and n.value.id in class_names | {'cls'}:
                fail('attribute of class object `%s` is assigned (monkey patching)' % ast.unparse(n), n, fname)
            if isinstance(n.value, ast.Attribute) and n.value.attr == '__class__':
                fail('attribute of `__class__` is assigned', n, fname)
        if isinstance(n, ast.Name) and n.id in ('setattr', 'delattr', 'exec', 'eval', 'globals'):
            fail('use of `%s` in module' % n.id, n, fname)
    for st in tree.body:
        if isinstance(st, (ast.If, ast.Try, ast.With, ast.For, ast.While)):
            fail('module-level compound statement cannot be classified', st, fname)
        # mutable state OUTSIDE the graph objects (a module-level memo survives every reset of every graph): the cache discipline
        # described by the tables would no longer be the whole story
        if isinstance(st, (ast.Assign, ast.AnnAssign)) and st.value is not None:
            for x in ast.walk(st.value):
                if isinstance(x, (ast.Dict, ast.List, ast.Set, ast.DictComp, ast.ListComp, ast.SetComp)):
                    fail('module-level mutable container `%s`' % ast.unparse(st)[:60], st, fname)
                if isinstance(x, ast.Call):
                    f = x.func
                    nm = f.id if isinstance(f, ast.Name) else (f.attr if isinstance(f, ast.Attribute) else '')
                    if nm in ('dict', 'list', 'set', 'defaultdict', 'OrderedDict', 'Counter', 'deque', 'WeakValueDictionary',
                              'WeakKeyDictionary', 'bytearray', 'ChainMap'):
                        fail('module-level mutable container `%s`' % ast.unparse(st)[:60], st, fname)
    for n in ast.walk(tree):
        if isinstance(n, ast.Global):
            fail('`global` statement (module-level state written from a function)', n, fname)
        if isinstance(n, (ast.FunctionDef, ast.AsyncFunctionDef)):
            for d in n.decorator_list:
                txt = ast.unparse(d)
                if any(k in txt for k in ('lru_cache', 'functools.cache', 'cached_property', 'cache')) and 'reset_cached' not in txt:
                    fail('memoising decorator `%s` on %s (a cache that no reset reaches)' % (txt, n.name), n, fname)


def scan_interfaces(tree, fname, watched):
    for n in ast.walk(tree):
        if isinstance(n, ast.Attribute) and n.attr in watched:
            fail('interfaces module mentions `.%s`' % n.attr, n, fname)
        if isinstance(n, (ast.FunctionDef, ast.AsyncFunctionDef)) and n.name in watched:
            fail('interfaces module defines `%s`' % n.name, n, fname)
        if isinstance(n, ast.Name) and n.id in ('setattr', 'delattr', 'exec', 'eval'):
            fail('interfaces module uses `%s`' % n.id, n, fname)
        if isinstance(n, ast.Constant) and isinstance(n.value, str) and n.value in watched:
            fail('interfaces module mentions the string %r' % n.value, n, fname)


def edge_type_values(tree, fname):
    cls, bases = find_class(tree, 'EdgeType', fname)
    if bases != ['str', 'Enum']:
        fail('EdgeType bases are %s, expected [str, Enum]' % bases, cls, fname)
    out = []
    for st in cls.body:
        if isinstance(st, ast.Expr) and isinstance(st.value, ast.Constant) and isinstance(st.value.value, str):
            continue
        if isinstance(st, ast.FunctionDef) and st.name == '__str__':
            continue
        if (
            isinstance(st, ast.Assign)
            and len(st.targets) == 1
            and isinstance(st.targets[0], ast.Name)
            and isinstance(st.value, ast.Constant)
            and isinstance(st.value.value, str)
        ):
            out.append((st.targets[0].id, st.value.value))
            continue
        fail('EdgeType member `%s` cannot be classified' % ast.unparse(st)[:60], st, fname)
    if len(set(n for n, _ in out)) != len(out):
        fail('EdgeType member defined twice', cls, fname)
    return sorted(out)


def dont_care_direction(tree, fname):
    cls, _ = find_class(tree, 'Edge', fname)
    funcs = class_functions(cls, fname, allow_plain_assign=True)
    if '__eq__' not in funcs:
        fail('Edge.__eq__ not found', cls, fname)
    f = funcs['__eq__']
    assigns = []
    for n in ast.walk(f):
        if isinstance(n, ast.Name) and n.id == 'dont_care_direction' and isinstance(n.ctx, (ast.Store, ast.Del)):
            assigns.append(n)
    lists = [
        n
        for n in ast.walk(f)
        if isinstance(n, ast.Assign)
        and len(n.targets) == 1
        and isinstance(n.targets[0], ast.Name)
        and n.targets[0].id == 'dont_care_direction'
    ]
    if len(assigns) != 1 or len(lists) != 1 or lists[0] not in f.body:
        fail('expected exactly one top-level assignment of dont_care_direction in Edge.__eq__', f, fname)
    value = lists[0].value
    if not isinstance(value, ast.List):
        fail('dont_care_direction is not a list literal', value, fname)
    out = []
    for e in value.elts:
        if not (isinstance(e, ast.Attribute) and isinstance(e.value, ast.Name) and e.value.id == 'EdgeType'):
            fail('element `%s` of dont_care_direction is not EdgeType.<MEMBER>' % ast.unparse(e), e, fname)
        out.append(e.attr)
    return out


# ----------------------------------------------------------------------------------------------------------------
# Coq printing
# ----------------------------------------------------------------------------------------------------------------


def coq_string(s):
    if not isinstance(s, str) or any(ord(c) < 32 or ord(c) > 126 for c in s):
        raise Fail('string %r cannot be printed as a Coq string' % (s,))
    return '"' + s.replace('"', '""') + '"'


def coq_bool(b):
    return 'true' if b else 'false'


def coq_list(items, indent='  ', one_per_line=False):
    items = list(items)
    if not items:
        return '[]'
    if one_per_line:
        return '[\n' + ';\n'.join(indent + i for i in items) + '\n]'
    return '[' + '; '.join(items) + ']'


def coq_tuple(*items):
    return '(' + ', '.join(items) + ')'


# ----------------------------------------------------------------------------------------------------------------
# main
# ----------------------------------------------------------------------------------------------------------------


def public_defaults(tree, fname, module_functions=False):
    """(owner class or '', function, parameter, source text of the default) for every parameter with a default."""
    rows = []

    def fn(owner, n):
        a = n.args
        pos = list(a.posonlyargs) + list(a.args)
        ds = [None] * (len(pos) - len(a.defaults)) + list(a.defaults)
        for prm, d in list(zip(pos, ds)) + list(zip(a.kwonlyargs, a.kw_defaults)):
            if d is not None:
                rows.append((owner, n.name, prm.arg, ast.unparse(d)))

    for n in tree.body:
        if isinstance(n, ast.ClassDef):
            for m in n.body:
                if isinstance(m, (ast.FunctionDef, ast.AsyncFunctionDef)):
                    fn(n.name, m)
        elif isinstance(n, (ast.FunctionDef, ast.AsyncFunctionDef)) and module_functions:
            fn('', n)
    return rows


def name_codec_constants(tree, fname):
    """The constants that decide what utils.get_variable_name_and_lag / get_name_with_lag compute, in source order:
    ('regex', pattern) for EVERY regular expression used anywhere in utils.py (first argument of a `re.<function>` call, which
    must be a string constant), and ('return', text) for every value returned by get_name_with_lag (f-strings as their template).
    Control flow, local names, messages and docstrings are deliberately NOT part of it: restructuring the two functions without
    touching a pattern or a name template changes nothing here."""
    fns = {n.name: n for n in tree.body if isinstance(n, ast.FunctionDef)}
    for need in ('get_variable_name_and_lag', 'get_name_with_lag'):
        if need not in fns:
            fail('function %s not found' % need, None, fname)
        if fns[need].decorator_list:
            fail('function %s is decorated' % need, fns[need], fname)
    if sum(1 for n in ast.walk(tree) if isinstance(n, ast.FunctionDef) and n.name in ('get_variable_name_and_lag', 'get_name_with_lag')) != 2:
        fail('a name-codec function is defined more than once', None, fname)
    for n in ast.walk(tree):
        if isinstance(n, (ast.Import, ast.ImportFrom)):
            for a in n.names:
                if (a.name == 're' and a.asname not in (None, 're')) or (isinstance(n, ast.ImportFrom) and n.module == 're'):
                    fail('the re module is imported under another name', n, fname)
        if isinstance(n, (ast.Assign, ast.AugAssign, ast.AnnAssign)):
            for t in (n.targets if isinstance(n, ast.Assign) else [n.target]):
                if isinstance(t, ast.Name) and t.id in ('get_variable_name_and_lag', 'get_name_with_lag', 're'):
                    fail('%s is re-assigned' % t.id, n, fname)
    rows = []
    calls = [n for n in ast.walk(tree) if isinstance(n, ast.Call) and isinstance(n.func, ast.Attribute)
             and isinstance(n.func.value, ast.Name) and n.func.value.id == 're']
    for c in sorted(calls, key=lambda c: (c.lineno, c.col_offset)):
        if not c.args or not (isinstance(c.args[0], ast.Constant) and isinstance(c.args[0].value, str)):
            fail('re.%s is called with a pattern that is not a string constant' % c.func.attr, c, fname)
        rows.append(('regex', c.args[0].value))
    rets = [n for n in ast.walk(fns['get_name_with_lag']) if isinstance(n, ast.Return)]
    # local names are replaced by v0, v1, ... in order of first appearance (parameters keep their names): renaming a local is
    # not a change of the template
    params = {a.arg for a in fns['get_name_with_lag'].args.args + fns['get_name_with_lag'].args.kwonlyargs}
    ren = {}
    for r in sorted(rets, key=lambda r: (r.lineno, r.col_offset)):
        if r.value is None:
            rows.append(('return', 'None'))
            continue
        v = copy.deepcopy(r.value)
        names = sorted((x for x in ast.walk(v) if isinstance(x, ast.Name)), key=lambda x: (x.lineno, x.col_offset))
        for x in names:
            if x.id not in params:
                x.id = ren.setdefault(x.id, 'v%d' % len(ren))
        rows.append(('return', ast.unparse(v)))
    return rows


def sha256(path):
    with open(path, 'rb') as fh:
        return hashlib.sha256(fh.read()).hexdigest()


def generate(repo_root):
    rel = {
        'cg': 'cai_causal_graph/causal_graph.py',
        'ts': 'cai_causal_graph/time_series_causal_graph.py',
        'gc': 'cai_causal_graph/graph_components.py',
        'td': 'cai_causal_graph/type_definitions.py',
        'if': 'cai_causal_graph/interfaces.py',
        'ut': 'cai_causal_graph/utils.py',
        'id': 'cai_causal_graph/identify_utils.py',
    }
    paths = {k: os.path.join(repo_root, v) for k, v in rel.items()}
    trees = {}
    for k, p in paths.items():
        if not os.path.isfile(p):
            fail('source file missing', None, p)
        with open(p, 'r', encoding='utf-8') as fh:
            src = fh.read()
        try:
            trees[k] = ast.parse(src, filename=p)
        except SyntaxError as e:
            fail('syntax error: %s' % e, None, p)

    check_decorator(trees['cg'], trees['ts'], rel['cg'], rel['ts'])
    class_names = {'CausalGraph', 'TimeSeriesCausalGraph', 'Skeleton'}
    check_module_level(trees['cg'], rel['cg'], class_names)
    check_module_level(trees['ts'], rel['ts'], class_names)

    cg = ClassScan(rel['cg'], trees['cg'], 'CausalGraph')
    ts = ClassScan(rel['ts'], trees['ts'], 'TimeSeriesCausalGraph')
    sk = ClassScan(rel['cg'], trees['cg'], 'Skeleton')
    # TimeSeriesCausalGraph must not be (re)defined in causal_graph.py and vice versa
    for tree, fname, other in ((trees['cg'], rel['cg'], 'TimeSeriesCausalGraph'), (trees['ts'], rel['ts'], 'CausalGraph'), (trees['ts'], rel['ts'], 'Skeleton')):
        if any(isinstance(n, ast.ClassDef) and n.name == other for n in ast.walk(tree)):
            fail('class %s is also defined here' % other, None, fname)
    # other classes in the two modules must not subclass / touch the graphs' private state
    for tree, fname in ((trees['cg'], rel['cg']), (trees['ts'], rel['ts'])):
        for n in tree.body:
            if isinstance(n, ast.ClassDef) and n.name not in class_names:
                fail('unexpected class %s in module' % n.name, n, fname)

    all_method_names = cg.method_names | ts.method_names
    cg.scan_methods(all_method_names)
    ts.scan_methods(all_method_names)
    sk.scan_methods(sk.method_names)

    # ---- cache attributes ----------------------------------------------------------------------------------------
    info = {}
    for c in (cg, ts):
        r = c.reset_info()
        if r is None:
            fail('%s does not define %s' % (c.cls_name, RESET_METHOD), c.cls, c.fname)
        info[c.cls_name] = dict(reset=r[0], calls_super=r[1], memo=c.memo_fields(), init_none=c.init_none_fields())
    if sk.reset_info() is not None:
        fail('Skeleton defines %s' % RESET_METHOD, sk.cls, sk.fname)
    sk_memo = sk.memo_fields()

    cache_universe = set()
    for v in info.values():
        cache_universe |= set(v['reset']) | set(v['memo'])
    if cache_universe & CORE_ATTRS:
        fail('a core attribute is also a cache attribute: %s' % sorted(cache_universe & CORE_ATTRS))
    if cache_universe & all_method_names:
        fail('a cache attribute has the name of a method: %s' % sorted(cache_universe & all_method_names))

    # every use of a cache attribute must follow the memo pattern
    for c in (cg, ts, sk):
        own_memo = c.memo_fields()
        for name, sc in c.scans.items():
            for attr, node in sc.foreign_attr_stores:
                if attr in cache_universe:
                    sc.fail('cache attribute .%s of another object is assigned' % attr, node)
                if attr in all_method_names or attr == RESET_METHOD:
                    sc.fail('method attribute .%s of another object is assigned' % attr, node)
            for attr, stores in sc.self_attr_stores.items():
                if attr in all_method_names:
                    sc.fail('self.%s (a method name) is assigned' % attr, stores[0][0])
                if attr not in cache_universe:
                    continue
                for node, value in stores:
                    if name in ('__init__', RESET_METHOD):
                        if value is None or not is_none(value):
                            sc.fail('cache attribute %s assigned something other than None' % attr, node)
                    elif name in own_memo.get(attr, ()):
                        if value is None:
                            sc.fail('cache attribute %s assigned in a form that cannot be classified' % attr, node)
                    else:
                        sc.fail('cache attribute %s assigned outside a memo reader' % attr, node)
            for attr, loads in sc.self_attr_loads.items():
                if attr in cache_universe and name not in own_memo.get(attr, ()):
                    sc.fail('cache attribute %s read outside its memo reader' % attr, loads[0])
    # a memo reader must not be a mutator, and must be an ordinary method or property
    for c in (cg, ts, sk):
        for field, readers in c.memo_fields().items():
            for r in readers:
                sc = c.scans[r]
                if sc.kind not in ('instance', 'property'):
                    sc.fail('memo reader is a %s' % sc.kind)
                if sc.decorated:
                    sc.fail('memo reader carries the reset decorator')
                a = sc.func.args
                if len(a.args) + len(a.posonlyargs) != 1 or a.kwonlyargs or a.vararg or a.kwarg:
                    sc.fail('memo reader of %s takes parameters: the cached value would depend on them' % field)

    # ---- printing --------------------------------------------------------------------------------------------------
    out = []
    out.append('(** GENERATED by tools/extract_facts.py -- DO NOT EDIT BY HAND.')
    out.append('    Regenerate:  python3 /verif/tools/extract_facts.py /repo /verif/coq/theories/Extracted.v')
    out.append('    Sources (relative to the repository root) and their sha256:')
    for k in ('cg', 'ts', 'gc', 'td', 'if', 'ut', 'id'):
        out.append('      %s  %s' % (sha256(paths[k]), rel[k]))
    out.append('    Meaning of the columns: see the docstring of tools/extract_facts.py. *)')
    out.append('From Coq Require Import String List Bool.')
    out.append('Import ListNotations.')
    out.append('Local Open Scope string_scope.')
    out.append('')

    def emit(name, typ, body):
        out.append('Definition %s : %s :=\n%s.\n' % (name, typ, body))

    def strs(xs, sort=True):
        xs = list(xs)
        return coq_list([coq_string(x) for x in (sorted(xs) if sort else xs)])

    for c in (cg, ts):
        n = c.cls_name
        emit('bases_' + n, 'list string', strs(c.bases, sort=False))
        rows = []
        for name in sorted(c.scans):
            sc = c.scans[name]
            rows.append(
                coq_tuple(coq_string(name), coq_bool(is_public(name)), coq_bool(sc.decorated), coq_bool(sc.writes_direct), strs(sc.refs))
            )
        out.append('(* (name, public, decorated, writes core state directly, self./super(). references) *)')
        emit('methods_' + n, 'list (string * bool * bool * bool * list string)', coq_list(rows, one_per_line=True))
        emit(
            'method_kinds_' + n,
            'list (string * string)',
            coq_list([coq_tuple(coq_string(k), coq_string(c.scans[k].kind)) for k in sorted(c.scans)], one_per_line=True),
        )
        emit('reset_fields_' + n, 'list string', strs(info[n]['reset']))
        emit('reset_calls_super_' + n, 'bool', coq_bool(info[n]['calls_super']))
        emit('memo_fields_' + n, 'list string', strs(info[n]['memo']))
        rows = []
        for field in sorted(info[n]['memo']):
            for reader in sorted(info[n]['memo'][field]):
                for kind in sorted(memo_returns(c.scans[reader], field)):
                    rows.append(coq_tuple(coq_string(reader), coq_string(field), coq_string(kind)))
        out.append('(* (memo reader, cache attribute, how the attribute is returned) *)')
        emit('memo_returns_' + n, 'list (string * string * string)', coq_list(rows, one_per_line=True))
        emit('init_none_fields_' + n, 'list string', strs(info[n]['init_none']))
        others = set()
        escapes = set()
        for name, sc in c.scans.items():
            for attr in list(sc.self_attr_loads) + list(sc.self_attr_stores):
                if attr not in all_method_names and attr not in CORE_ATTRS and attr not in cache_universe:
                    others.add(attr)
            for callee in sc.self_escapes:
                escapes.add((name, callee))
        emit('other_self_attrs_' + n, 'list string', strs(others))
        out.append('(* (method, callee that receives the bare object [self] as an argument) *)')
        emit(
            'self_escapes_' + n,
            'list (string * string)',
            coq_list([coq_tuple(coq_string(a), coq_string(b)) for a, b in sorted(escapes)], one_per_line=True),
        )
        # human-readable justification of the writes_direct column (comment only)
        out.append('(* why [writes core state directly] is true (line:reason):')
        for name in sorted(c.scans):
            sc = c.scans[name]
            if sc.writes_direct:
                out.append('     %s: %s' % (name, ', '.join(sc.write_reasons).replace('*)', '* )')))
        out.append('*)\n')

    emit('memo_fields_Skeleton', 'list string', strs(sk_memo))
    emit(
        'skeleton_writers',
        'list string',
        strs([k for k, s in sk.scans.items() if s.writes_direct]),
    )
    etv = edge_type_values(trees['td'], rel['td'])
    emit(
        'edge_type_values',
        'list (string * string)',
        coq_list([coq_tuple(coq_string(a), coq_string(b)) for a, b in etv], one_per_line=True),
    )
    dcd = dont_care_direction(trees['gc'], rel['gc'])
    emit('dont_care_direction', 'list string', strs(dcd, sort=False))

    rows = []
    for k in ('cg', 'ts', 'gc'):
        rows += public_defaults(trees[k], rel[k])
    rows += public_defaults(trees['id'], rel['id'], module_functions=True)
    out.append('(* (class or "" for a module-level function, function, parameter, source text of its default value) *)')
    emit(
        'public_defaults',
        'list (string * string * string * string)',
        coq_list([coq_tuple(*[coq_string(x) for x in r]) for r in rows], one_per_line=True),
    )
    out.append('(* the regular expressions of utils.py and the values returned by get_name_with_lag (see name_codec_constants) *)')
    emit(
        'name_codec_constants',
        'list (string * string)',
        coq_list([coq_tuple(coq_string(a), coq_string(b)) for a, b in name_codec_constants(trees['ut'], rel['ut'])], one_per_line=True),
    )

    watched = set(CORE_ATTRS) | cache_universe | {RESET_METHOD, RESET_DECORATOR}
    scan_interfaces(trees['if'], rel['if'], watched)
    return '\n'.join(out)


def main(argv):
    repo_root = argv[1] if len(argv) > 1 else '/repo'
    output = argv[2] if len(argv) > 2 else '/verif/coq/theories/Extracted.v'
    try:
        text = generate(repo_root)
    except Fail as e:
        sys.stderr.write('extract_facts: FAIL: %s\n' % e)
        return 2
    except Exception as e:  # anything unexpected is a failure too: never write a partial file
        sys.stderr.write('extract_facts: FAIL: internal error %s: %s\n' % (type(e).__name__, e))
        return 2
    # regenerated on every run; replaced on disk only when the content differs (an unchanged source keeps the compiled facts)
    if os.path.exists(output):
        with open(output, 'r', encoding='ascii', errors='replace') as fh:
            if fh.read() == text:
                return 0
    tmp = output + '.tmp'
    with open(tmp, 'w', encoding='ascii') as fh:
        fh.write(text)
    os.replace(tmp, output)
    return 0


if __name__ == '__main__':
    sys.exit(main(sys.argv))
