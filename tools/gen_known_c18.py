"""One-off generator of known_findings_C18_le5.json: every (DAG on <= 5 labelled nodes, ordered pair) on which the
set returned by identify_confounders is not a sufficient adjustment set (finding F12). Run by hand; the result is committed
and never written at check time."""
import json, sys, logging
sys.path.insert(0, '/verif')
logging.disable(logging.CRITICAL)
from harness import dagsweep as D, common as C
from harness.props.c18 import key

dags = []
for n in range(1, 6):
    dags += [(n, a) for a in D.all_dags(n)]
out, impl = D.sweep(dags, [False, False, True, False, False], tag='k18', chunk=500)
inst = []
agree = True
for (n, arcs), r in zip(dags, out):
    if r[2] != 1:
        agree = False
    if r[7]:
        op = [(x, y) for x in range(n) for y in range(n) if x != y]
        for i, (x, y) in enumerate(op):
            if r[7] >> i & 1:
                inst.append(key(n, arcs, x, y))
json.dump(dict(comment='F12: (DAG, ordered pair) instances on <= 5 labelled nodes where identify_confounders is not a sufficient adjustment '
                       'set; key = n|sorted arcs|x|y with nodes numbered a=0..', dags_swept=len(dags), model_agrees_everywhere=agree,
               instances=sorted(inst)), open('/verif/known_findings_C18_le5.json', 'w'), indent=0)
print(len(dags), len(inst), agree)
